#!/usr/bin/env python3
"""
Engine S for C19: the invertible integer hashes are bijections with the given inverses.

  real source  --rustc +nightly -Zunpretty=mir-->  MIR text  --this translator-->  SSA bit-vector
  terms  --> per-stage inverse lemmas in SMT-LIB2  --> cvc5 (bit-blasting and --solve-bv-as-int=sum)
  and z3, answers cross-checked.

The functions are loop free, so there is no unwinding bound: `unsat` for all lemmas means the
identities hold for all 2^32 / 2^64 inputs.  A `sat` answer is turned into a concrete input,
which is replayed through the *compiled* functions before anything is reported.
"""
import hashlib
import json
import os
import random
import re
import shutil
import subprocess
import sys
import tempfile
import time
from concurrent.futures import ThreadPoolExecutor

sys.path.insert(0, os.path.dirname(os.path.abspath(__file__)))
import pmhv
sys.setrecursionlimit(20000)

FUNCS = ["int64_hash", "int64_hash_inverse", "int32_hash", "int32_hash_inverse"]
WIDTH = {"u8": 8, "u16": 16, "u32": 32, "u64": 64, "usize": 64, "i8": 8, "i16": 16, "i32": 32, "i64": 64,
         "isize": 64, "bool": 1, "u128": 128, "i128": 128}


class Untranslatable(Exception):
    pass


# ------------------------------------------------------------------------------------------
# MIR dump
# ------------------------------------------------------------------------------------------

def dump_mir(workdir):
    """MIR of invhash.rs of the current tree. The file has no dependencies outside cfg(test),
    so it is compiled standalone (0.1 s); if that ever fails the whole crate is dumped."""
    src = os.path.join(pmhv.REPO, "src", "invhash.rs")
    out = os.path.join(workdir, "invhash.mir")
    cmd = ["rustc", "+nightly", "--edition", "2021", "--crate-type", "lib", "-Zunpretty=mir",
           "-C", "debug-assertions=off", "-C", "overflow-checks=on", src]
    env = dict(pmhv.ENV)
    p = subprocess.run(cmd, cwd=workdir, env=env, stdout=subprocess.PIPE, stderr=subprocess.PIPE, text=True)
    how = "rustc +nightly -Zunpretty=mir src/invhash.rs (standalone)"
    if p.returncode != 0 or "fn int64_hash" not in p.stdout:
        # whole crate
        d = os.path.join(workdir, "crate")
        shutil.copytree(pmhv.REPO, d, ignore=shutil.ignore_patterns("target", ".git"))
        cmd = ["cargo", "+nightly", "rustc", "--offline", "--lib", "--", "-Zunpretty=mir",
               "-C", "debug-assertions=off", "-C", "overflow-checks=on"]
        env["CARGO_TARGET_DIR"] = os.path.join(workdir, "tgt")
        p = subprocess.run(cmd, cwd=d, env=env, stdout=subprocess.PIPE, stderr=subprocess.PIPE, text=True)
        how = "cargo +nightly rustc --lib -- -Zunpretty=mir (whole crate)"
        if p.returncode != 0:
            raise Untranslatable("MIR dump failed: " + p.stderr[-800:])
    with open(out, "w") as f:
        f.write(p.stdout)
    return p.stdout, how


def split_functions(mir):
    fns = {}
    for m in re.finditer(r"^fn ([A-Za-z0-9_:<>]+)\((.*?)\) -> (\S+) \{\n(.*?)^\}\n", mir, re.S | re.M):
        name = m.group(1).split("::")[-1]
        fns[name] = (m.group(2), m.group(3), m.group(4))
    return fns


# ------------------------------------------------------------------------------------------
# terms
# ------------------------------------------------------------------------------------------

def mk(op, w, *args):
    """term constructor with constant folding (loops with concrete counters then unroll by themselves and
    branches on concrete conditions are not forked)"""
    t = (op, w) + tuple(args)
    if op not in ("const", "var") and all(isinstance(a, tuple) and a[0] == "const" for a in args):
        try:
            return ("const", w, evaluate(t, {}) & ((1 << w) - 1))
        except Untranslatable:
            return t
    if op in ("shl", "lshr") and args[1][0] == "const":
        n = args[1][2]
        if n >= w:
            return ("const", w, 0)
        if n == 0:
            return args[0]
        inner = args[0]
        if inner[0] == op and inner[3][0] == "const":
            tot = n + inner[3][2]
            if tot >= w:
                return ("const", w, 0)
            return (op, w, inner[2], ("const", w, tot))
    if op in ("zext", "trunc") and args[0][0] == "const":
        return ("const", w, args[0][2] & ((1 << w) - 1))
    if op == "ite" and args[0][0] == "const":
        return args[1] if args[0][2] else args[2]
    if op == "and" and w == 1:
        for a, b in ((args[0], args[1]), (args[1], args[0])):
            if a[0] == "const":
                return b if a[2] else ("const", 1, 0)
    return t


def const(v, w):
    return ("const", w, v & ((1 << w) - 1))


def var(name, w):
    return ("var", w, name)


def width(t):
    return t[1]


def evaluate(t, env, memo=None):
    """concrete evaluation of a term (used to validate the translator against the compiled code
    and to pull counterexamples back to function inputs)"""
    if memo is None:
        memo = {}
    k = id(t)
    if k in memo:
        return memo[k]
    op, w = t[0], t[1]
    M = (1 << w) - 1
    if op == "const":
        r = t[2]
    elif op == "var":
        r = env[t[2]] & M
    else:
        a = [evaluate(x, env, memo) for x in t[2:]]
        if op == "not":
            r = (~a[0]) & M
        elif op == "neg":
            r = (-a[0]) & M
        elif op == "add":
            r = (a[0] + a[1]) & M
        elif op == "sub":
            r = (a[0] - a[1]) & M
        elif op == "mul":
            r = (a[0] * a[1]) & M
        elif op == "xor":
            r = a[0] ^ a[1]
        elif op == "and":
            r = a[0] & a[1]
        elif op == "or":
            r = a[0] | a[1]
        elif op == "shl":
            r = (a[0] << a[1]) & M if a[1] < w else 0
        elif op == "lshr":
            r = (a[0] >> a[1]) if a[1] < w else 0
        elif op == "ashr":
            s = a[0] - (1 << w) if a[0] >> (w - 1) else a[0]
            r = (s >> min(a[1], w - 1)) & M
        elif op == "rotl":
            n = a[1] % w
            r = ((a[0] << n) | (a[0] >> (w - n))) & M if n else a[0]
        elif op == "rotr":
            n = a[1] % w
            r = ((a[0] >> n) | (a[0] << (w - n))) & M if n else a[0]
        elif op == "zext" or op == "trunc":
            r = a[0] & M
        elif op == "sext":
            w0 = width(t[2])
            s = a[0] - (1 << w0) if a[0] >> (w0 - 1) else a[0]
            r = s & M
        elif op in ("ult", "ule", "ugt", "uge", "eq", "ne"):
            r = int({"ult": a[0] < a[1], "ule": a[0] <= a[1], "ugt": a[0] > a[1], "uge": a[0] >= a[1],
                     "eq": a[0] == a[1], "ne": a[0] != a[1]}[op])
        elif op in ("slt", "sle", "sgt", "sge"):
            w0 = width(t[2])
            sa = [x - (1 << w0) if x >> (w0 - 1) else x for x in a]
            r = int({"slt": sa[0] < sa[1], "sle": sa[0] <= sa[1], "sgt": sa[0] > sa[1], "sge": sa[0] >= sa[1]}[op])
        elif op == "uaddo":
            w0 = width(t[2])
            r = int(a[0] + a[1] >= (1 << w0))
        elif op == "usubo":
            r = int(a[0] < a[1])
        elif op == "umulo":
            w0 = width(t[2])
            r = int(a[0] * a[1] >= (1 << w0))
        elif op == "ite":
            r = a[1] if a[0] else a[2]
        else:
            raise Untranslatable("eval: op " + op)
    memo[k] = r
    return r


def smt(t, defs, memo):
    """SMT-LIB2 text of a term, with sharing through let-free named definitions"""
    k = id(t)
    if k in memo:
        return memo[k]
    op, w = t[0], t[1]
    if op == "const":
        s = "(_ bv%d %d)" % (t[2], w)
        memo[k] = s
        return s
    if op == "var":
        memo[k] = t[2]
        return t[2]
    a = [smt(x, defs, memo) for x in t[2:]]
    b1 = lambda c: "(ite %s #b1 #b0)" % c
    if op == "not":
        e = "(bvnot %s)" % a[0]
    elif op == "neg":
        e = "(bvneg %s)" % a[0]
    elif op in ("add", "sub", "mul", "xor", "and", "or", "shl", "lshr", "ashr"):
        e = "(bv%s %s %s)" % (op, a[0], a[1])
    elif op == "rotl":
        e = "(bvor (bvshl %s (bvurem %s (_ bv%d %d))) (bvlshr %s (bvsub (_ bv%d %d) (bvurem %s (_ bv%d %d)))))" % (
            a[0], a[1], w, w, a[0], w, w, a[1], w, w)
    elif op == "rotr":
        e = "(bvor (bvlshr %s (bvurem %s (_ bv%d %d))) (bvshl %s (bvsub (_ bv%d %d) (bvurem %s (_ bv%d %d)))))" % (
            a[0], a[1], w, w, a[0], w, w, a[1], w, w)
    elif op == "zext":
        e = "((_ zero_extend %d) %s)" % (w - width(t[2]), a[0])
    elif op == "sext":
        e = "((_ sign_extend %d) %s)" % (w - width(t[2]), a[0])
    elif op == "trunc":
        e = "((_ extract %d 0) %s)" % (w - 1, a[0])
    elif op in ("ult", "ule", "ugt", "uge", "slt", "sle", "sgt", "sge"):
        e = b1("(bv%s %s %s)" % (op, a[0], a[1]))
    elif op == "eq":
        e = b1("(= %s %s)" % (a[0], a[1]))
    elif op == "ne":
        e = b1("(distinct %s %s)" % (a[0], a[1]))
    elif op == "uaddo":
        w0 = width(t[2])
        e = "((_ extract %d %d) (bvadd ((_ zero_extend 1) %s) ((_ zero_extend 1) %s)))" % (w0, w0, a[0], a[1])
    elif op == "usubo":
        e = b1("(bvult %s %s)" % (a[0], a[1]))
    elif op == "umulo":
        w0 = width(t[2])
        e = b1("(distinct ((_ extract %d %d) (bvmul ((_ zero_extend %d) %s) ((_ zero_extend %d) %s))) (_ bv0 %d))" % (
            2 * w0 - 1, w0, w0, a[0], w0, a[1], w0))
    elif op == "ite":
        e = "(ite (= %s #b1) %s %s)" % (a[0], a[1], a[2])
    else:
        raise Untranslatable("smt: op " + op)
    name = "t%d" % len(defs)
    defs.append("(define-fun %s () (_ BitVec %d) %s)" % (name, w, e))
    memo[k] = name
    return name


def term_vars(t, acc=None, seen=None):
    if acc is None:
        acc, seen = set(), set()
    if id(t) in seen:
        return acc
    seen.add(id(t))
    if t[0] == "var":
        acc.add(t[2])
    elif t[0] != "const":
        for x in t[2:]:
            term_vars(x, acc, seen)
    return acc


def substitute(t, name, repl, memo=None):
    if memo is None:
        memo = {}
    k = id(t)
    if k in memo:
        return memo[k]
    if t[0] == "var":
        r = repl if t[2] == name else t
    elif t[0] == "const":
        r = t
    else:
        r = (t[0], t[1]) + tuple(substitute(x, name, repl, memo) for x in t[2:])
    memo[k] = r
    return r


# ------------------------------------------------------------------------------------------
# MIR -> terms (symbolic execution of a loop-free body)
# ------------------------------------------------------------------------------------------

BINOPS = {"Add": "add", "Sub": "sub", "Mul": "mul", "BitXor": "xor", "BitAnd": "and", "BitOr": "or",
          "AddUnchecked": "add", "SubUnchecked": "sub", "MulUnchecked": "mul"}
CMPOPS = {"Lt": "lt", "Le": "le", "Gt": "gt", "Ge": "ge", "Eq": "eq", "Ne": "ne"}
CALLS = {"wrapping_add": "add", "wrapping_sub": "sub", "wrapping_mul": "mul", "rotate_left": "rotl",
         "rotate_right": "rotr"}


class Fn:
    def __init__(self, name, params, ret, body):
        self.name = name
        self.types = {}
        self.signed = {}
        for pm in re.finditer(r"(_\d+): (\w+)", params):
            self.types[pm.group(1)] = pm.group(2)
        self.types["_0"] = ret
        for m in re.finditer(r"^\s*let (?:mut )?(_\d+): ([^;]+);", body, re.M):
            self.types[m.group(1)] = m.group(2).strip()
        self.debug = {}
        for m in re.finditer(r"debug (\w+) => (_\d+);", body):
            self.debug[m.group(1)] = m.group(2)
        self.blocks = {}
        for m in re.finditer(r"^\s*(bb\d+)(?: \(cleanup\))?: \{\n(.*?)^\s*\}\n", body, re.S | re.M):
            lines = [l.strip() for l in m.group(2).splitlines() if l.strip()]
            self.blocks[m.group(1)] = lines
        self.params = [pm.group(1) for pm in re.finditer(r"(_\d+): (\w+)", params)]

    def ty(self, local):
        return self.types[local]

    def w(self, local):
        t = self.types[local]
        if t not in WIDTH:
            raise Untranslatable("%s: local %s has type %s" % (self.name, local, t))
        return WIDTH[t]


def is_signed(ty):
    return ty.startswith("i")


class Exec:
    """symbolic execution; `cut_local` = the user variable whose assignments are stage cuts"""

    def __init__(self, fn, cut=True, all_fns=None, call_depth=0):
        self.all_fns = all_fns or {}
        self.call_depth = call_depth
        self.fn = fn
        self.obligations = []   # (description, term(bool width 1) that must be 1)
        self.stages = []        # list of (in_var_name, term)
        self.cut_local = None
        self.nstage = 0
        self.cut = cut

    def operand(self, s, env, want_w=None):
        s = s.strip()
        m = re.match(r"^(?:copy|move) (_\d+)$", s)
        if m:
            if m.group(1) not in env:
                raise Untranslatable("%s: read of unassigned %s" % (self.fn.name, m.group(1)))
            return env[m.group(1)], self.fn.ty(m.group(1))
        m = re.match(r"^(?:copy|move) \((_\d+)\.(\d): (\w+)\)$", s)
        if m:
            key = "%s.%s" % (m.group(1), m.group(2))
            return env[key], m.group(3)
        m = re.match(r"^(?:copy|move) \(\((_\d+) as (\w+)\)\.(\d): (\w+)\)$", s)
        if m:
            key = "%s.%s.%s" % (m.group(1), m.group(2), m.group(3))
            if key not in env:
                raise Untranslatable("%s: read of enum payload `%s`" % (self.fn.name, s))
            return env[key], m.group(4)
        m = re.match(r"^const (-?\d+)_(\w+)$", s)
        if m:
            ty = m.group(2)
            return const(int(m.group(1)), WIDTH[ty]), ty
        m = re.match(r"^const core::num::<impl (\w+)>::(MAX|MIN|BITS)$", s)
        if m:
            ty = m.group(1)
            w = WIDTH[ty]
            if m.group(2) == "BITS":
                return const(w, 32), "u32"
            if m.group(2) == "MAX":
                return const((1 << (w - 1)) - 1 if is_signed(ty) else (1 << w) - 1, w), ty
            return const((1 << (w - 1)) if is_signed(ty) else 0, w), ty
        m = re.match(r"^const (true|false)$", s)
        if m:
            return const(1 if m.group(1) == "true" else 0, 1), "bool"
        raise Untranslatable("%s: operand `%s`" % (self.fn.name, s))

    def split_args(self, s):
        out, depth, cur = [], 0, ""
        for ch in s:
            if ch == "(":
                depth += 1
            if ch == ")":
                depth -= 1
            if ch == "," and depth == 0:
                out.append(cur)
                cur = ""
            else:
                cur += ch
        if cur.strip():
            out.append(cur)
        return out

    def shift_amount(self, amt, aty, w):
        wa = width(amt)
        if wa < w:
            return mk("zext", w, amt)
        if wa > w:
            return mk("trunc", w, amt)
        return amt

    def rvalue(self, rhs, env, dst):
        fn = self.fn
        m = re.match(r"^(\w+)\((.*)\)$", rhs)
        if m and (m.group(1) in BINOPS or m.group(1) in CMPOPS or m.group(1) in ("Shl", "Shr", "ShlUnchecked", "ShrUnchecked",
                  "Not", "Neg", "AddWithOverflow", "SubWithOverflow", "MulWithOverflow")):
            op = m.group(1)
            args = [self.operand(a, env) for a in self.split_args(m.group(2))]
            if op == "Not":
                return mk("not", width(args[0][0]), args[0][0])
            if op == "Neg":
                return mk("neg", width(args[0][0]), args[0][0])
            (a, aty), (b, bty) = args
            w = width(a)
            if op in BINOPS:
                return mk(BINOPS[op], w, a, b)
            if op in CMPOPS:
                c = CMPOPS[op]
                if c in ("eq", "ne"):
                    return mk(c, 1, a, b)
                return mk(("s" if is_signed(aty) else "u") + c, 1, a, b)
            if op in ("Shl", "ShlUnchecked"):
                return mk("shl", w, a, self.shift_amount(b, bty, w))
            if op in ("Shr", "ShrUnchecked"):
                return mk("ashr" if is_signed(aty) else "lshr", w, a, self.shift_amount(b, bty, w))
            if op in ("AddWithOverflow", "SubWithOverflow", "MulWithOverflow"):
                if is_signed(aty):
                    raise Untranslatable("signed checked arithmetic")
                base = {"AddWithOverflow": ("add", "uaddo"), "SubWithOverflow": ("sub", "usubo"), "MulWithOverflow": ("mul", "umulo")}[op]
                return ("tuple", mk(base[0], w, a, b), mk(base[1], 1, a, b))
        m = re.match(r"^(.*) as (\w+) \(IntToInt\)$", rhs)
        if m:
            a, aty = self.operand(m.group(1), env)
            w = WIDTH[m.group(2)]
            wa = width(a)
            if w == wa:
                return a
            if w < wa:
                return mk("trunc", w, a)
            return mk("sext" if is_signed(aty) else "zext", w, a)
        m = re.match(r"^discriminant\((_\d+)\)$", rhs)
        if m and m.group(1) + ".disc" in env:
            return env[m.group(1) + ".disc"]
        if rhs.startswith(("copy ", "move ", "const ")):
            return self.operand(rhs, env)[0]
        raise Untranslatable("%s: rvalue `%s`" % (fn.name, rhs))

    def assign(self, dst, term, env):
        if isinstance(term, tuple) and term and term[0] == "tuple":
            env[dst + ".0"] = term[1]
            env[dst + ".1"] = term[2]
            return
        if self.cut and dst == self.cut_local:
            # a stage boundary: record the stage function, continue from a fresh variable
            w = width(term)
            invar = self.cur_in
            if not (term[0] == "var" and term[2] == invar):
                self.stages.append((invar, term))
                self.nstage += 1
                nv = "%s_s%d" % (self.fn.name, self.nstage)
                self.cur_in = nv
                env[dst] = var(nv, w)
                return
        env[dst] = term

    def run(self):
        fn = self.fn
        # stage variable = the local that is returned
        ret_src = None
        for lines in fn.blocks.values():
            for l in lines:
                m = re.match(r"^_0 = (?:copy|move) (_\d+);$", l)
                if m:
                    ret_src = m.group(1)
        straight = not any(re.match(r"^switchInt", l) for lines in fn.blocks.values() for l in lines)
        if not (ret_src and ret_src in fn.debug.values()):
            # the result is not a plain copy of a user variable (e.g. `_0 = min(key, ..)`): cut at the user
            # variable that is assigned most often; the tail expression becomes a last stage
            cnt = {}
            for lines in fn.blocks.values():
                for l in lines:
                    mm = re.match(r"^(_\d+) = ", l)
                    if mm and mm.group(1) in fn.debug.values() and mm.group(1) not in fn.params:
                        cnt[mm.group(1)] = cnt.get(mm.group(1), 0) + 1
            ret_src = max(cnt, key=cnt.get) if cnt else None
        if not (ret_src and straight):
            self.cut = False
        self.cut_local = ret_src
        p = fn.params[0]
        w = fn.w(p)
        self.in_name = fn.name + "_x"
        self.cur_in = self.in_name
        env = {p: var(self.in_name, w)}
        result = self.exec_block("bb0", env, const(1, 1), 0)
        return result

    def exec_block(self, bb, env, pc, depth):
        fn = self.fn
        if depth > 3000:
            raise Untranslatable("%s: control flow too deep (loop with a symbolic bound?)" % fn.name)
        for l in fn.blocks[bb]:
            if l.startswith(("StorageLive", "StorageDead", "nop", "FakeRead", "PlaceMention", "//")):
                continue
            m = re.match(r"^assert\((!?)(.*?), \"(.*?)\".*\) -> \[success: (bb\d+), unwind.*\];$", l)
            if m:
                c, _ = self.operand(m.group(2), env)
                if m.group(1) == "!":
                    c = mk("not", 1, c)
                self.obligations.append(("%s: %s" % (fn.name, m.group(3)), pc, c))
                return self.exec_block(m.group(4), env, pc, depth + 1)
            m = re.match(r"^(_\d+) = ([A-Za-z0-9_:<> ]+)\((.*)\) -> \[return: (bb\d+), unwind.*\];$", l)
            if m:
                callee = m.group(2).strip().split("::")[-1]
                args = [self.operand(a, env) for a in self.split_args(m.group(3))]
                if callee in ("min", "max") and len(args) == 2:
                    (a, aty), (b, bty) = args
                    lt = mk(("s" if is_signed(aty) else "u") + "lt", 1, a, b)
                    res = mk("ite", width(a), lt, a, b) if callee == "min" else mk("ite", width(a), lt, b, a)
                    self.assign(m.group(1), res, env)
                    return self.exec_block(m.group(4), env, pc, depth + 1)
                mt = re.match(r"^<(\w+) as TryFrom<(\w+)>>::try_from$", m.group(2).strip())
                if mt and len(args) == 1 and mt.group(1) in WIDTH and mt.group(2) in WIDTH and not is_signed(mt.group(1)) and not is_signed(mt.group(2)):
                    # Result<D, TryFromIntError> of an unsigned narrowing: discriminant 0 = Ok, 1 = Err (as printed by rustc)
                    a, aty = args[0]
                    wd, ws = WIDTH[mt.group(1)], width(a)
                    if wd < ws:
                        err = mk("ugt", 1, a, const((1 << wd) - 1, ws))
                        pay = mk("trunc", wd, a)
                    else:
                        err = const(0, 1)
                        pay = a if wd == ws else mk("zext", wd, a)
                    env[m.group(1) + ".disc"] = mk("ite", 64, err, const(1, 64), const(0, 64))
                    env[m.group(1) + ".Ok.0"] = pay
                    return self.exec_block(m.group(4), env, pc, depth + 1)
                if callee in ("wrapping_neg",) and len(args) == 1:
                    self.assign(m.group(1), mk("neg", width(args[0][0]), args[0][0]), env)
                    return self.exec_block(m.group(4), env, pc, depth + 1)
                if callee in ("wrapping_shl", "wrapping_shr") and len(args) == 2:
                    (a, aty), (b, bty) = args
                    w = width(a)
                    amt = mk("and", w, self.shift_amount(b, bty, w), const(w - 1, w))
                    self.assign(m.group(1), mk("shl" if callee == "wrapping_shl" else ("ashr" if is_signed(aty) else "lshr"), w, a, amt), env)
                    return self.exec_block(m.group(4), env, pc, depth + 1)
                if callee in self.all_fns and callee not in CALLS:
                    # a helper defined in the same file: inline it (its asserts become obligations under pc)
                    params, ret, body = self.all_fns[callee]
                    cf = Fn(callee, params, ret, body)
                    sub = Exec(cf, cut=False, all_fns=self.all_fns, call_depth=self.call_depth + 1)
                    if self.call_depth > 8:
                        raise Untranslatable("call depth")
                    cenv = {}
                    for pl, (aterm, aty) in zip(cf.params, args):
                        cenv[pl] = aterm
                    sub.cut = False
                    sub.cut_local = None
                    sub.cur_in = self.cur_in
                    r = sub.exec_block("bb0", cenv, pc, 0)
                    self.obligations += sub.obligations
                    self.assign(m.group(1), r, env)
                    return self.exec_block(m.group(4), env, pc, depth + 1)
                if callee not in CALLS:
                    raise Untranslatable("%s: call to %s" % (fn.name, m.group(2)))
                a, aty = args[0]
                b, bty = args[1]
                w = width(a)
                if CALLS[callee] in ("rotl", "rotr"):
                    b = self.shift_amount(b, bty, w)
                self.assign(m.group(1), mk(CALLS[callee], w, a, b), env)
                return self.exec_block(m.group(4), env, pc, depth + 1)
            m = re.match(r"^goto -> (bb\d+);$", l)
            if m:
                return self.exec_block(m.group(1), env, pc, depth + 1)
            if l == "return;":
                return env["_0"]
            m = re.match(r"^switchInt\((.*?)\) -> \[(.*)\];$", l)
            if m:
                c, cty = self.operand(m.group(1), env)
                targets = [t.strip() for t in m.group(2).split(",")]
                if c[0] == "const":
                    dest = None
                    for t in targets:
                        kk, tb = [x.strip() for x in t.split(":")]
                        if kk != "otherwise" and int(kk) == c[2]:
                            dest = tb
                    if dest is None:
                        dest = [t.split(":")[1].strip() for t in targets if t.strip().startswith("otherwise")][0]
                    return self.exec_block(dest, env, pc, depth + 1)
                res = None
                taken = []
                for t in reversed(targets):
                    k, tb = [x.strip() for x in t.split(":")]
                    if fn.blocks.get(tb) == ["unreachable;"]:
                        # rustc proved the arm dead (enum discriminant out of range); keep that as an obligation
                        if k == "otherwise":
                            none = const(1, 1)
                            for t2 in targets:
                                k2 = t2.split(":")[0].strip()
                                if k2 != "otherwise":
                                    none = mk("and", 1, none, mk("ne", 1, c, const(int(k2), width(c))))
                            dead = mk("not", 1, none)
                        else:
                            dead = mk("ne", 1, c, const(int(k), width(c)))
                        self.obligations.append(("%s: switch arm %s marked unreachable" % (fn.name, k), pc, dead))
                        continue
                    if k == "otherwise":
                        cond = None
                    else:
                        cond = mk("eq", 1, c, const(int(k), width(c)))
                    taken.append((cond, tb))
                # otherwise first (it was last in the list)
                other = [tb for cnd, tb in taken if cnd is None]
                res = None
                if other:
                    notc = const(1, 1)
                    for cnd, tb in taken:
                        if cnd is not None:
                            notc = mk("and", 1, notc, mk("not", 1, cnd))
                    res = self.exec_block(other[0], dict(env), mk("and", 1, pc, notc), depth + 1)
                for cnd, tb in taken:
                    if cnd is None:
                        continue
                    r = self.exec_block(tb, dict(env), mk("and", 1, pc, cnd), depth + 1)
                    res = r if res is None else mk("ite", width(r), cnd, r, res)
                return res
            m = re.match(r"^(_\d+) = (.*);$", l)
            if m:
                self.assign(m.group(1), self.rvalue(m.group(2), env, m.group(1)), env)
                continue
            raise Untranslatable("%s: statement `%s`" % (fn.name, l))
        raise Untranslatable("%s: block %s falls through" % (fn.name, bb))


def translate(fnsrc, name):
    params, ret, body = fnsrc[name]
    fn = Fn(name, params, ret, body)
    ex = Exec(fn, cut=True, all_fns=fnsrc)
    res = ex.run()
    # the last stage: the returned value in terms of the last stage variable
    stages = list(ex.stages)
    if ex.cut and not (res[0] == "var" and res[2] == ex.cur_in):
        # tail stage: the returned value as a function of the last stage variable
        stages.append((ex.cur_in, res))
    if ex.cut:
        # `_0 = copy X` gives var(cur_in): all stages recorded. Merge stages whose term refers to older variables
        fixed = []
        for invar, term in stages:
            while True:
                extra = term_vars(term) - {invar}
                if not extra:
                    break
                if not fixed:
                    raise Untranslatable("%s: stage refers to unknown variables %s" % (name, extra))
                pin, pterm = fixed.pop()
                term = substitute(term, invar, pterm)
                invar = pin
            fixed.append((invar, term))
        stages = fixed
        # whole function = composition
        whole = var(ex.in_name, width(res))
        for invar, term in stages:
            whole = substitute(term, invar, whole)
    else:
        whole = res
        stages = [(ex.in_name, res)]
    return dict(name=name, in_name=ex.in_name, width=width(whole), whole=whole, stages=stages,
                obligations=ex.obligations, cut=ex.cut)


# ------------------------------------------------------------------------------------------
# solvers
# ------------------------------------------------------------------------------------------

SOLVERS = [
    ("cvc5-bv-as-int", ["cvc5", "--lang", "smt2", "--solve-bv-as-int=sum", "--produce-models"]),
    ("cvc5-bitblast", ["cvc5", "--lang", "smt2", "--produce-models"]),
    ("z3-4.8.12", ["/usr/bin/z3", "-smt2"]),
]


def parse_answer(out):
    first = out.strip().splitlines()[0].strip() if out.strip() else ""
    if "(error" in out or "error:" in out.lower():
        return "error"
    if first in ("sat", "unsat", "unknown"):
        return first
    return "unknown"


def parse_model(out):
    model = {}
    for m in re.finditer(r"\(\((\w+) (?:#x([0-9a-fA-F]+)|#b([01]+)|\(_ bv(\d+) \d+\))\)\)", out):
        if m.group(2):
            model[m.group(1)] = int(m.group(2), 16)
        elif m.group(3):
            model[m.group(1)] = int(m.group(3), 2)
        else:
            model[m.group(1)] = int(m.group(4))
    return model


GRACE = 3.0   # seconds the other solvers get after the first definitive answer (cross-check)


def query(workdir, qname, vars_, negated_goal_terms, tlimit, assume_terms=()):
    """ask whether  assume_terms /\\ (one of negated goals) is satisfiable.
    All solvers are started in parallel on the same file; any `(error` line makes that solver's answer
    `error`; a sat/unsat disagreement makes the query `disagree`.  returns verdict dict."""
    defs, memo = [], {}
    goal_names = [smt(t, defs, memo) for t in negated_goal_terms]
    assume_names = [smt(t, defs, memo) for t in assume_terms]
    lines = ["(set-option :produce-models true)", "(set-logic ALL)"]
    for v, w in vars_:
        lines.append("(declare-const %s (_ BitVec %d))" % (v, w))
    lines += defs
    for a in assume_names:
        lines.append("(assert (= %s #b1))" % a)
    if len(goal_names) == 1:
        lines.append("(assert (= %s #b1))" % goal_names[0])
    else:
        lines.append("(assert (or %s))" % " ".join("(= %s #b1)" % g for g in goal_names))
    lines.append("(check-sat)")
    path = os.path.join(workdir, qname + ".smt2")
    with open(path, "w") as f:
        f.write("\n".join(lines) + "\n")
    mpath = os.path.join(workdir, qname + ".model.smt2")
    with open(mpath, "w") as f:
        f.write("\n".join(lines + ["(get-value (%s))" % v for v, w in vars_]) + "\n")
    procs = []
    t0 = time.time()
    for n, c in SOLVERS:
        of = open(os.path.join(workdir, "%s.%s.out" % (qname, n)), "w+")
        procs.append([n, c, subprocess.Popen(c + [path], stdout=of, stderr=subprocess.STDOUT), of, None, None])
    first_def = None
    while True:
        alive = False
        for pr in procs:
            if pr[4] is not None:
                continue
            rc = pr[2].poll()
            if rc is None:
                alive = True
                continue
            pr[3].seek(0)
            out = pr[3].read()
            pr[4] = parse_answer(out)
            pr[5] = round(time.time() - t0, 3)
            if pr[4] in ("sat", "unsat") and first_def is None:
                first_def = time.time()
        now = time.time()
        if not alive:
            break
        if now - t0 > tlimit or (first_def is not None and now - first_def > GRACE):
            for pr in procs:
                if pr[4] is None:
                    pr[2].kill()
                    pr[2].wait()
                    pr[4] = "timeout" if now - t0 > tlimit else "cut-after-grace"
                    pr[5] = round(now - t0, 3)
            break
        time.sleep(0.01)
    for pr in procs:
        pr[3].close()
    answers = [dict(solver=pr[0], answer=pr[4], secs=pr[5]) for pr in procs]
    definitive = set(a["answer"] for a in answers if a["answer"] in ("sat", "unsat"))
    errors = [a for a in answers if a["answer"] == "error"]
    if len(definitive) == 2:
        verdict = "disagree"
    elif errors:
        verdict = "error"
    elif definitive:
        verdict = definitive.pop()
    else:
        verdict = "unknown"
    model = {}
    if verdict == "sat":
        for pr in procs:
            if pr[4] == "sat":
                try:
                    p = subprocess.run(pr[1] + [mpath], stdout=subprocess.PIPE, stderr=subprocess.STDOUT, text=True, timeout=tlimit + 10)
                    model = parse_model(p.stdout)
                except subprocess.TimeoutExpired:
                    model = {}
                if model:
                    break
    return dict(name=qname, verdict=verdict, answers=answers, model=model, file=path,
                n_definitive=sum(1 for a in answers if a["answer"] in ("sat", "unsat")))


# ------------------------------------------------------------------------------------------
# native oracle: the compiled functions of the current tree
# ------------------------------------------------------------------------------------------

NATIVE_MAIN = """
#[allow(dead_code)]
#[path = "%s"]
mod invhash;
use std::io::BufRead;
fn main() {
    let stdin = std::io::stdin();
    for line in stdin.lock().lines() {
        let line = line.unwrap();
        let mut it = line.split_whitespace();
        let f = it.next().unwrap();
        let x: u64 = it.next().unwrap().parse().unwrap();
        let r = std::panic::catch_unwind(|| match f {
            "int64_hash" => invhash::int64_hash(x),
            "int64_hash_inverse" => invhash::int64_hash_inverse(x),
            "int32_hash" => invhash::int32_hash(x as u32) as u64,
            "int32_hash_inverse" => invhash::int32_hash_inverse(x as u32) as u64,
            _ => panic!("unknown function"),
        });
        match r {
            Ok(v) => println!("{}", v),
            Err(_) => println!("PANIC"),
        }
    }
}
"""


class Native:
    def __init__(self, workdir):
        self.bins = {}
        for prof, flags in (("dev", ["-C", "debug-assertions=on", "-C", "overflow-checks=on"]), ("release", ["-O"])):
            src = os.path.join(workdir, "native_%s.rs" % prof)
            with open(src, "w") as f:
                f.write(NATIVE_MAIN % os.path.join(pmhv.REPO, "src", "invhash.rs"))
            out = os.path.join(workdir, "native_" + prof)
            p = subprocess.run(["rustc", "--edition", "2021"] + flags + ["-A", "warnings", "-o", out, src],
                               stdout=subprocess.PIPE, stderr=subprocess.STDOUT, text=True, env=pmhv.ENV)
            if p.returncode != 0:
                raise Untranslatable("native build of invhash.rs failed: " + p.stdout[-600:])
            self.bins[prof] = out

    def call(self, pairs, prof="dev"):
        inp = "".join("%s %d\n" % (f, x) for f, x in pairs)
        p = subprocess.run([self.bins[prof]], input=inp, stdout=subprocess.PIPE, stderr=subprocess.DEVNULL, text=True)
        out = []
        for l in p.stdout.split():
            out.append(None if l == "PANIC" else int(l))
        return out


# ------------------------------------------------------------------------------------------
# the check
# ------------------------------------------------------------------------------------------

def check(prop, spec, tier, seed, args):
    t0 = time.time()
    tl_stage = 20 if tier == "quick" else 120
    tl_mono = 60 if tier == "quick" else 900
    work = tempfile.mkdtemp(prefix="pmhv-c19-", dir=pmhv.SCRATCH_ROOT)
    obligations = []      # dicts: name, verdict, answers
    violations = []
    undecided = []
    samples = []
    notes = []
    nvalid = 0
    try:
        mir, how = dump_mir(work)
        fns = split_functions(mir)
        missing = [f for f in FUNCS if f not in fns]
        if missing:
            raise Untranslatable("functions missing from MIR: %s" % missing)
        tr = {f: translate(fns, f) for f in FUNCS}
        native = Native(work)
        # ---- translator validation (not the deciding step): encoding == compiled code on concrete inputs
        rnd = random.Random(seed)
        for f in FUNCS:
            w = tr[f]["width"]
            xs = [0, (1 << w) - 1, 1, 1 << (w - 1)] + [1 << i for i in range(0, w, 7)] + [rnd.getrandbits(w) for _ in range(200)]
            got = native.call([(f, x) for x in xs], "release")
            for x, g in zip(xs, got):
                e = evaluate(tr[f]["whole"], {tr[f]["in_name"]: x})
                # stage composition must agree with the whole term as well
                v = x
                for invar, term in tr[f]["stages"]:
                    v = evaluate(term, {invar: v})
                if g is None:
                    continue   # panics are handled by the overflow obligations
                if e != g or v != g:
                    raise Untranslatable("translator validation failed: %s(%d): compiled %s, encoding %s, stages %s" % (f, x, g, e, v))
                nvalid += 1
        # ---- obligations 1: no assert (overflow check) of the four functions can fail
        for f in FUNCS:
            T = tr[f]
            pend = []
            for desc, pc, c in T["obligations"]:
                try:
                    # constant conditions are evaluated directly
                    if not term_vars(c) and not term_vars(pc):
                        ok = evaluate(c, {}) == 1 or evaluate(pc, {}) == 0
                        obligations.append(dict(name="%s [const]" % desc, verdict="unsat" if ok else "sat", answers=[{"solver": "constant-folding", "answer": "unsat" if ok else "sat", "secs": 0}]))
                        if not ok:
                            violations.append(dict(kind="panic", func=f, x=0, why=desc))
                        continue
                except Untranslatable:
                    pass
                pend.append((desc, pc, c))
            for i, (desc, pc, c) in enumerate(pend):
                # stage variables are not all function inputs: re-express over the function input
                cc, pp = c, pc
                x = var(T["in_name"], T["width"])
                acc = x
                for invar, term in T["stages"]:
                    cc = substitute(cc, invar, acc)
                    pp = substitute(pp, invar, acc)
                    acc = substitute(term, invar, acc)
                q = query(work, "%s_assert%d" % (f, i), [(T["in_name"], T["width"])], [mk("and", 1, pp, mk("not", 1, cc))], tl_stage)
                q["name"] = "%s cannot fail" % desc
                obligations.append(q)
                if q["verdict"] == "sat":
                    violations.append(dict(kind="panic", func=f, x=q["model"].get(T["in_name"], 0), why=desc))
                elif q["verdict"] != "unsat":
                    undecided.append(q["name"])
        # ---- obligations 2: stage lemmas
        for fwd, inv in (("int64_hash", "int64_hash_inverse"), ("int32_hash", "int32_hash_inverse")):
            F, G = tr[fwd], tr[inv]
            w = F["width"]
            fs, gs = F["stages"], G["stages"]
            ok_all = True
            bad = []
            y = var("y", w)
            if len(fs) == len(gs) and F["cut"] and G["cut"]:
                n = len(fs)
                jobs = []
                for k in range(n):
                    fi_in, fi = fs[n - 1 - k]
                    gk_in, gk = gs[k]
                    # A_k: g_k(f_{n-k}(y)) == y      B_k: f_{n-k}(g_k(y)) == y
                    a = substitute(gk, gk_in, substitute(fi, fi_in, y))
                    b = substitute(fi, fi_in, substitute(gk, gk_in, y))
                    for tag, t in (("A", a), ("B", b)):
                        jobs.append((k, tag, t))

                def one(job):
                    k, tag, t = job
                    q = query(work, "%s_stage%d%s" % (fwd, k + 1, tag), [("y", w)], [mk("ne", 1, t, y)], tl_stage)
                    q["name"] = "%s lemma %s%d: %s" % (fwd, tag, k + 1,
                                                     ("inverse stage %d undoes forward stage %d" % (k + 1, n - k)) if tag == "A" else ("forward stage %d undoes inverse stage %d" % (n - k, k + 1)))
                    return k, tag, q

                with ThreadPoolExecutor(max_workers=5) as pool:
                    for k, tag, q in pool.map(one, jobs):
                        obligations.append(q)
                        if q["verdict"] != "unsat":
                            ok_all = False
                            bad.append((k, tag, q))
                notes.append("%s: %d forward / %d inverse stages, positional pairing" % (fwd, len(fs), len(gs)))
            else:
                ok_all = False
                notes.append("%s: %d forward / %d inverse stages (cut=%s/%s): no positional pairing, monolithic query" % (fwd, len(fs), len(gs), F["cut"], G["cut"]))
            if ok_all:
                continue
            # ---- some lemma failed: candidates, then monolithic queries
            cands = []
            n = len(fs)
            for k, tag, q in bad:
                if q["verdict"] != "sat":
                    continue
                yv = q["model"].get("y")
                if yv is None:
                    continue
                if tag == "A":
                    # y sits before forward stage n-k: pull back through inverse stages k+1.. (they invert forward stages n-k-1..1 if those are fine)
                    v = yv
                    for gin, g in gs[k + 1:]:
                        v = evaluate(g, {gin: v})
                    cands.append(("GF", v))
                    # also try interpreting y directly as an input of the forward function
                    cands.append(("GF", yv))
                else:
                    v = yv
                    for fin, f_ in fs[n - k:]:
                        v = evaluate(f_, {fin: v})
                    cands.append(("FG", v))
                    cands.append(("FG", yv))
            found = False
            for kind, x in cands:
                if replay_pair(native, fwd, inv, kind, x):
                    violations.append(dict(kind=kind, func=fwd, x=x, why="stage lemma counterexample pulled back to an input"))
                    found = True
                    break
            if found:
                continue
            # stage counts differ: a surplus stage must be the identity; a non-identity stage gives a solver
            # model that is turned into inputs (directly, and through the compiled other function)
            if len(fs) != len(gs):
                probes = []
                for nm, lst in (("forward", fs), ("inverse", gs)):
                    for si, (sin, st) in enumerate(lst):
                        q = query(work, "%s_%s_stage%d_identity" % (fwd, nm, si + 1), [(sin, w)], [mk("ne", 1, st, var(sin, w))], 5)
                        if q["verdict"] == "sat" and sin in q["model"]:
                            probes.append(q["model"][sin])
                cset = []
                for yv in probes[:16]:
                    for c in (yv, native.call([(inv, yv)], "release")[0], native.call([(fwd, yv)], "release")[0]):
                        if c is not None and c not in cset:
                            cset.append(c)
                for c in cset:
                    for kind in ("GF", "FG"):
                        if not found and replay_pair(native, fwd, inv, kind, c):
                            violations.append(dict(kind=kind, func=fwd, x=c, why="non-identity surplus stage, solver model mapped to an input"))
                            found = True
                if found:
                    notes.append("%s: counterexample derived from a non-identity surplus stage" % fwd)
                    continue
            # values the code compares against or branches on (and their neighbours) are cheap, natively checked candidates
            if not found:
                consts = set()
                for fname in (fwd, inv):
                    for mm in re.finditer(r"const (\d+)_u(?:8|16|32|64|size)", fns[fname][2]):
                        v = int(mm.group(1))
                        for c in (v, v + 1, v - 1):
                            if 0 <= c < (1 << w):
                                consts.add(c)
                consts.update([0, 1, (1 << w) - 1, (1 << (w - 1)), (1 << 32) - 1 if w > 32 else 65535])
                for c in sorted(consts):
                    for kind in ("GF", "FG"):
                        if not found and replay_pair(native, fwd, inv, kind, c):
                            violations.append(dict(kind=kind, func=fwd, x=c, why="constant from the function body used as a candidate input (solver inconclusive on the whole function)"))
                            found = True
                if found:
                    notes.append("%s: counterexample from a body constant, confirmed natively" % fwd)
                    continue
            # monolithic
            x = var("x", w)
            gf = substitute(G["whole"], G["in_name"], substitute(F["whole"], F["in_name"], x))
            fg = substitute(F["whole"], F["in_name"], substitute(G["whole"], G["in_name"], x))
            for kind, t in (("GF", gf), ("FG", fg)):
                q = query(work, "%s_mono_%s" % (fwd, kind), [("x", w)], [mk("ne", 1, t, x)], tl_mono)
                q["name"] = "%s monolithic %s: %s for all x" % (fwd, kind, "inverse(hash(x)) == x" if kind == "GF" else "hash(inverse(x)) == x")
                obligations.append(q)
                if q["verdict"] == "sat" and replay_pair(native, fwd, inv, kind, q["model"].get("x", 0)):
                    violations.append(dict(kind=kind, func=fwd, x=q["model"]["x"], why="monolithic query"))
                    found = True
                    break
                elif q["verdict"] != "unsat":
                    undecided.append(q["name"] + " -> " + q["verdict"])
            if not found and not any(u.startswith(fwd) for u in undecided):
                # both monolithic identities unsat: the identities hold although the pairing did not
                notes.append("%s: stage pairing failed but both monolithic identities were decided unsat" % fwd)
        # ---- replay files for violations
        vlines = []
        for v in violations:
            if v["kind"] == "panic":
                got = native.call([(v["func"], v["x"])], "dev")
                gotr = native.call([(v["func"], v["x"])], "release")
                if got[0] is not None and gotr[0] is not None:
                    undecided.append("overflow counterexample %s(%d) does not panic natively" % (v["func"], v["x"]))
                    continue
            rp = write_replay(prop, v)
            vlines.append("VIOLATION property=%s replay=%s" % (prop, rp))
        # ---- evidence
        n_ob = len(obligations)
        n_dis = sum(1 for o in obligations if o["verdict"] == "unsat")
        for o in obligations:
            samples.append({"obligation": o["name"], "verdict": o["verdict"], "solvers": o["answers"]})
        ev = {
            "property_id": prop, "tier": tier, "seed": seed, "level": "proof",
            "coverage": {
                "obligations": n_ob, "discharged": n_dis,
                "checker_cmd": " | ".join(" ".join(c) + " <query>.smt2" for _, c in SOLVERS),
                "trusted_base": ["rustc nightly MIR dump (-Zunpretty=mir) of src/invhash.rs", "lib/smt_invhash.py (MIR -> SMT-LIB2 translator; validated on this run against the compiled functions on %d concrete inputs)" % nvalid,
                                 "cvc5 1.0 (bit-blasting and --solve-bv-as-int=sum), z3 4.8.12; an obligation counts as discharged only if no solver answered sat/error and at least one answered unsat",
                                 "composition argument: if every inverse stage undoes its forward stage in both orders, the composed functions are mutually inverse (syntactic, done by the checker)"],
                "samples": samples,
                "functions_encoded": FUNCS, "mir_dump": how,
                "bounds": "none: loop-free code, all 2^32 resp. 2^64 inputs; solver time limit per lemma %d s, per monolithic query %d s" % (tl_stage, tl_mono),
                "stage_structure": notes,
                "translator_validation_inputs": nvalid,
                "solver_seconds": round(sum(a["secs"] for o in obligations for a in o["answers"]), 2),
                "undecided": undecided,
                "evaluations": n_ob, "distinct_nontrivial": n_dis,
                "repo_head": pmhv.repo_head(), "repo_fingerprint": pmhv.repo_fingerprint(),
            },
            "assumptions": ["MIR printed by rustc is the semantics of the compiled functions (cross-checked on concrete inputs each run)",
                            "overflow checks on (dev profile semantics): every arithmetic assert of the four functions is itself an obligation"],
            "wall_s": round(time.time() - t0, 1),
            "violations": len(vlines),
        }
        os.makedirs(pmhv.EVIDENCE_DIR, exist_ok=True)
        with open(os.path.join(pmhv.EVIDENCE_DIR, prop + ".json"), "w") as f:
            json.dump(ev, f, indent=1)
        for l in vlines:
            print(l)
        for u in undecided:
            print("UNDECIDED property=%s %s" % (prop, u))
        print("%s: %d obligations, %d discharged (unsat), %d violations, %d undecided, %.1f s" % (prop, n_ob, n_dis, len(vlines), len(undecided), time.time() - t0))
        if vlines:
            return 1
        if undecided or n_dis != n_ob:
            return 2
        return 0
    except Untranslatable as e:
        print("UNDECIDED property=%s translator: %s" % (prop, e))
        ev = {"property_id": prop, "tier": tier, "seed": seed, "level": "other",
              "coverage": {"explanation": "not decided on this run: " + str(e), "evaluations": 0, "distinct_nontrivial": 0},
              "wall_s": round(time.time() - t0, 1), "violations": 0}
        os.makedirs(pmhv.EVIDENCE_DIR, exist_ok=True)
        with open(os.path.join(pmhv.EVIDENCE_DIR, prop + ".json"), "w") as f:
            json.dump(ev, f, indent=1)
        return 2
    finally:
        if not getattr(args, "keep", False):
            shutil.rmtree(work, ignore_errors=True)
        else:
            print("scratch kept at", work)


def replay_pair(native, fwd, inv, kind, x):
    """True iff the compiled functions violate the identity at x (either profile)"""
    for prof in ("dev", "release"):
        if kind == "GF":
            h = native.call([(fwd, x)], prof)[0]
            if h is None:
                return True
            r = native.call([(inv, h)], prof)[0]
        else:
            h = native.call([(inv, x)], prof)[0]
            if h is None:
                return True
            r = native.call([(fwd, h)], prof)[0]
        if r is None or r != x:
            return True
    return False


REPLAY_RS = """// replay of a C19 counterexample against the real source file: rustc -O thisfile && ./a.out ; exit 1 = violated
#[allow(dead_code)]
#[path = "{src}"]
mod invhash;
fn main() {{
    let x: u{w} = {x};
    {body}
}}
"""


def write_replay(prop, v):
    w = 64 if "64" in v["func"] else 32
    fwd = "int%d_hash" % w
    inv = fwd + "_inverse"
    if v["kind"] == "panic":
        body = 'let r = invhash::%s(x); println!("%s({}) = {} (expected: panics with overflow checks on)", x, r);' % (v["func"], v["func"])
    elif v["kind"] == "GF":
        body = 'let h = invhash::%s(x); let r = invhash::%s(h); println!("x={} hash={} inverse(hash)={}", x, h, r); if r != x {{ std::process::exit(1); }}' % (fwd, inv)
    else:
        body = 'let h = invhash::%s(x); let r = invhash::%s(h); println!("x={} inverse={} hash(inverse)={}", x, h, r); if r != x {{ std::process::exit(1); }}' % (inv, fwd)
    body = body.replace("{{", "{").replace("}}", "}")
    d = os.path.join(pmhv.REPLAY_DIR, prop)
    os.makedirs(d, exist_ok=True)
    p = os.path.join(d, "%s_%s_%d.rs" % (v["func"], v["kind"], v["x"]))
    with open(p, "w") as f:
        f.write(REPLAY_RS.format(src=os.path.join(pmhv.REPO, "src", "invhash.rs"), w=w, x=v["x"], body=body))
    return p


if __name__ == "__main__":
    class A:
        keep = "--keep" in sys.argv
    tier = "thorough" if "--thorough" in sys.argv else "quick"
    sys.exit(check("C19", {}, tier, int(os.environ.get("VERIF_SEED", "0") or 0), A()))
