"""registry of checks: property id -> spec (harness instances, bounds, what is encoded, assumptions)"""
from pmhv import Harness as H

SPECS = {}
SOURCE_COMMITS = []
NOTES = ("Every verdict is a SAT/SMT verdict over an encoding regenerated from /repo's current working tree. "
         "exit 0 = all harness instances verified (with reachability witnesses satisfied); exit 1 = a counterexample was found "
         "and reproduced natively (VIOLATION line); exit 2 = not decided (timeout, out of memory, harness no longer compiles, "
         "or a counterexample that does not reproduce natively) - never reported as success.")
NOT_APPLICABLE = {
    "C01": "every clause is an expectation/probability over hash randomness (needs a measure, not a forall/exists verdict; the law involves exp); its forall-lemmas are decided under C02/C14/C15",
    "C06": "bias O(1/m) and 15% spread are distributional (a measure, not a forall/exists verdict); the parallel estimator spawns rayon threads (not modelled by Kani); the monotonicity clause was attempted (harness c06_monotone_* in harness/setsketcher.rs: registers k<=k' => estimate(k)<=estimate(k'), exp stubbed monotone, b=1.001,a=20 concrete) but monotonicity of the 53-bit multiplier/divider chain is a SAT-hard miter: no verdict in 40 min (m=2) and 60 min (m=3)",
    "C08": "single clause, an expectation over hash and densification randomness; the structural facts are decided under C04/C09",
    "C10": "single clause, an expectation over hash randomness; the selection mechanism is decided under C11",
}

# --------------------------------------------------------------------------------------- C15
_c15 = []
for ty, ms, quick in (("f64", (1, 2, 3, 4, 5, 6), (1, 2, 3)), ("u16", (2, 3, 4, 5, 7, 8, 9, 12), (4, 5)),
                      ("u64", (5,), ()), ("f32", (3,), ())):
    for m in ms:
        t = "quick" if m in quick else "thorough"
        _c15.append(H("c15_step_%s_m%d" % (ty, m), timeout=900, tier=t,
                      desc="inductive step of MaxValueTracker<%s>::update from an arbitrary Inv-state, m=%d" % (ty, m),
                      bounds="m=%d slots, all values of %s (no NaN), slot index symbolic (case-split)" % (m, ty)))
        _c15.append(H("c15_fresh_%s_m%d" % (ty, m), timeout=300, tier=t,
                      desc="new(m) and reset() from arbitrary content give the all-MAX state satisfying Inv, m=%d" % m,
                      bounds="m=%d, %s" % (m, ty)))
SPECS["C15"] = dict(
    level="model_checking",
    harnesses=_c15,
    functions=["maxvaluetrack::MaxValueTracker::{new, update, get_max_value, get_value, is_update_possible, reset}"],
    bounds={"quick": "V=f64 m in {1,2,3}; V=u16 m in {4,5}; one update from an arbitrary invariant state (covers update sequences of any length by induction)",
            "thorough": "V=f64 m in 1..=6; V=u16 m in {2,3,4,5,7,8,9,12}; V=u64 m=5; V=f32 m=3"},
    outside="slot counts other than those listed; NaN values (callers never pass NaN: `NaN < qmax` is false before any update)",
    assumptions=["representation invariant Inv (inner node = max of its two children) characterises reachable states: holds for new()/reset() and is preserved by update (both checked)",
                 "offered values are not NaN",
                 "log statically disabled (feature max_level_off) in the scratch build"],
    not_decided=[],
    level_text="Bounded model checking (Kani/CBMC) of one inductive step of the real MaxValueTracker code from an arbitrary state satisfying the representation invariant, for every slot, every value and every listed slot count; with the base case (new/reset) this covers update sequences of any length for those slot counts.",
    level_note="Trusted: Kani/CBMC/CaDiCaL, rustc MIR; invariant written in harness/maxvaluetrack.rs; NaN excluded; slot counts bounded as listed in the evidence.",
    technique="Kani/CBMC bounded model checking, inductive step over symbolic invariant state",
)


# --------------------------------------------------------------------------------------- C19
def _c19(prop, spec, tier, seed, args):
    import smt_invhash
    return smt_invhash.check(prop, spec, tier, seed, args)


SPECS["C19"] = dict(
    level="proof", custom=_c19, engine_name="mir-smt", harnesses=[],
    level_text="Unbounded (loop-free code, all 2^32 / 2^64 inputs): the MIR of the four functions of the current tree is translated to bit-vector terms, cut into stages at the assignments to the hash variable, and every inverse stage is shown by SMT to undo its forward stage in both orders; composition gives both identities. Arithmetic overflow asserts of the functions are obligations too.",
    level_note="Trusted: rustc's MIR dump, the translator lib/smt_invhash.py (cross-validated on every run against the compiled functions on ~230 concrete inputs per function), cvc5 1.0 / z3 4.8.12 (answers cross-checked; any (error or disagreement = not decided). A sat answer is replayed through the compiled functions before it is reported.",
    technique="MIR-to-SMT-LIB2 translation, per-stage inverse lemmas decided by cvc5 (bv-as-int and bit-blasting) and z3",
)


# --------------------------------------------------------------------------------------- C17
_c17 = []
for m in range(1, 8):
    t = "quick" if m in (1, 3, 4) else "thorough"
    _c17.append(H("c17_step_m%d" % m, timeout=900, tier=t, desc="one FYshuffle::next from any reachable state (v a permutation, lastidx<=m), any generator output", bounds="m=%d" % m))
    _c17.append(H("c17_reset_m%d" % m, timeout=600, tier=t, desc="reset() from arbitrary content == new(m) up to the two fresh representations, which draw identically", bounds="m=%d" % m))
    _c17.append(H("c17_cells_n%d" % m, timeout=900, tier="quick" if m in (3, 4) else "thorough", desc="slot map u -> floor(u*n): float slot == exact slot except within 2 grid points (2^-52) of a cell boundary; never n", bounds="n=%d, all 2^52 values of u" % m))
for m, t in ((2, "quick"), (3, "quick"), (4, "thorough")):
    _c17.append(H("c17_block_m%d" % m, timeout=1800, tier=t, desc="full block of m draws from the fresh state, two generators: outputs pairwise distinct, equal to v; choice vector -> permutation injective", bounds="m=%d" % m))
SPECS["C17"] = dict(
    level="model_checking", harnesses=_c17,
    functions=["fyshuffle::FYshuffle::{new, next, reset, get_values}", "rand::distr::Uniform<f64>::sample (real code)"],
    bounds={"quick": "step/reset m in {1,3,4}; cell lemma n in {3,4}; block injectivity m in {2,3}",
            "thorough": "step/reset/cells m in 1..=7; block injectivity m in {2,3,4}"},
    outside="m > 7; the uniformity of the generator's u64 outputs is assumed (a measure, not decidable by a solver); uniformity of permutations is reduced to the two forall-lemmas (equal cells, injective choice map)",
    assumptions=["generator = memoised oracle: any u64 per draw, a function of (seed, draw number) (models/rand_xoshiro)",
                 "reachable states: v is a permutation of 0..m and lastidx <= m (holds for new/reset, preserved by next: checked)"],
    not_decided=["'every one of the m! orders has equal probability' as a probability statement: only its forall-reduction is decided"],
    level_text="Bounded model checking of FYshuffle::next/reset over every reachable state and every generator output for the listed sizes: a block of m draws after a reset returns each value once, earlier positions are never touched, reset forgets all history, and the slot map / choice-vector map lemmas that reduce uniformity to the uniformity of the generator.",
    level_note="Trusted: Kani/CBMC, the Xoshiro oracle model (models/rand_xoshiro). Sizes bounded as listed. Probability statement reduced to forall-lemmas; generator uniformity assumed.",
    technique="Kani/CBMC bounded model checking, inductive step over symbolic permutation state with an oracle RNG model",
)


# --------------------------------------------------------------------------------------- C14
_c14 = [
    H("c14_pmh_u64_n4", 600, "quick", "jaccard::compute_probminhash_jaccard::<u64>: exact count/len, symmetric, 1 on identical, in [0,1]", "symbolic length 1..=4, all u64 values"),
    H("c14_pmh_u64_n6", 900, "quick", "same (lengths 5 and 6 expose inexact reciprocal arithmetic)", "symbolic length 1..=6"),
    H("c14_pmh_alias_u64_n4", 600, "quick", "jaccard::get_jaccard_index_estimate::<u64>", "symbolic length 1..=4"),
    H("c14_pmh_f64_n4", 600, "quick", "jaccard::compute_probminhash_jaccard::<f64> (no NaN)", "symbolic length 1..=4"),
    H("c14_pmh_mismatch_n4", 600, "quick", "unequal lengths: compute_probminhash_jaccard never returns a value (panics)", "all length pairs <= 4", expect_cover="none"),
    H("c14_pmh_alias_mismatch_n4", 600, "quick", "unequal lengths: jaccard::get_jaccard_index_estimate never returns a value", "all length pairs <= 4", expect_cover="none"),
    H("c14_smh_free_f64_n4", 600, "quick", "superminhasher::compute_superminhash_jaccard::<f64>: exact, symmetric, Err on unequal lengths", "symbolic lengths <= 4"),
    H("c14_smh_free_f32_n4", 600, "quick", "superminhasher::compute_superminhash_jaccard::<f32>", "symbolic lengths <= 4"),
    H("c14_smh_alias_f64_n4", 600, "thorough", "superminhasher::get_jaccard_index_estimate::<f64>", "symbolic lengths <= 4"),
    H("c14_smh_free_f64_n6", 900, "thorough", "superminhasher::compute_superminhash_jaccard::<f64>", "symbolic lengths <= 6"),
    H("c14_smh_method_f64_m4", 600, "quick", "SuperMinHash::<f64>::get_jaccard_index_estimate on an arbitrary stored sketch", "m=4, other length <= 4"),
    H("c14_smh_method_f64_m5", 900, "quick", "SuperMinHash::<f64>::get_jaccard_index_estimate, length not a multiple of 4", "m=5"),
    H("c14_smh_method_f32_m3", 600, "thorough", "SuperMinHash::<f32>::get_jaccard_index_estimate", "m=3"),
    H("c14_smh2_free_n3", 900, "quick", "superminhasher2::compute_superminhash_jaccard::<u64>: exact, symmetric, Err on unequal lengths", "length 3 (and 2 vs 3)"),
    H("c14_smh2_free_n4", 900, "thorough", "same", "length 4"),
    H("c14_smh2_method_m3", 900, "quick", "SuperMinHash2::get_jaccard_index_estimate", "m=3"),
]
SPECS["C14"] = dict(
    level="model_checking", harnesses=_c14,
    functions=["jaccard::compute_probminhash_jaccard", "jaccard::get_jaccard_index_estimate", "superminhasher::compute_superminhash_jaccard", "superminhasher::get_jaccard_index_estimate",
               "SuperMinHash::get_jaccard_index_estimate", "superminhasher2::compute_superminhash_jaccard", "SuperMinHash2::get_jaccard_index_estimate"],
    bounds={"quick": "sketch length <= 4 (symbolic), element types u64, f64, f32", "thorough": "sketch length <= 6"},
    outside="lengths above the bound; NaN elements (NaN != NaN, so 'identical sketches give 1' is false for them by IEEE semantics); MleJaccard::get_mle",
    assumptions=["float sketches contain no NaN"],
    not_decided=["MleJaccard::get_mle returns a finite value in [0,1] and never aborts: rayon + argmin Executor + slog terminal observer are outside what Kani or an SMT encoding of MIR reaches (threads, trait objects, I/O)"],
    level_text="Bounded model checking of every counting estimator on symbolic sketches of symbolic length up to the bound: the returned value is exactly matches/length (bit-exact), symmetric, 1 on identical arguments, within [0,1]; on unequal lengths no value is ever returned (Err or panic, shown by an unreachable-cover).",
    level_note="Trusted: Kani/CBMC. Lengths bounded; NaN excluded; the maximum-likelihood estimator clause of C14 is NOT decided (stated in evidence).",
    technique="Kani/CBMC bounded model checking over symbolic slices",
)

# --------------------------------------------------------------------------------------- C18
_c18 = [H("c18_" + t, 300, "quick", "get_sig for %s: bytes == to_ne_bytes, equal values <=> equal bytes" % t, "all values") for t in ("u8", "u16", "u32", "u64", "i16", "i32")]
for ty, ls, q in (("u8", (0, 1, 3, 6), (0, 3)), ("u16", (0, 1, 2, 3, 5), (0, 1, 2)), ("u32", (0, 1, 2, 3, 4), (0, 1, 2))):
    for l in ls:
        _c18.append(H("c18_vec_%s_l%d" % (ty, l), 1500, "quick" if l in q else "thorough",
                      "Vec<%s>::get_sig: concatenated ne bytes, argument intact, injective (vs. a vector of equal or one-shorter length), all owners dropped once" % ty,
                      "length %d (concrete), all element values" % l))
for ty in ("u8", "u16", "u32"):
    _c18.append(H("c18_vec_%s_cap" % ty, 1500, "quick", "Vec<%s>::get_sig on a vector whose capacity exceeds its length (stale spare capacity): identity == the len elements only" % ty, "length 2, spare capacity 2-3"))
_c18.append(H("c18_string_utf8", 1500, "quick", "String::get_sig == UTF-8 bytes for two symbolic characters up to U+D7FF (1-3 bytes each)", "2 chars"))
_c18.append(H("c18_string_fixed", 900, "quick", "String::get_sig == UTF-8 bytes for the fixed strings \"\", \"a\", \"\\u{e9}\", \"a\\u{e9}\\u{20ac}\" (concrete content: stays decidable for iterator-based implementations)", "4 fixed strings, 0..6 bytes"))
_c18.append(H("c18_string_n3", 900, "quick", "String::get_sig == UTF-8 bytes (ASCII content)", "len 0..=3 symbolic"))
SPECS["C18"] = dict(
    level="model_checking", harnesses=_c18,
    functions=["probminhasher::sig::Sig::get_sig for u8,u16,u32,u64,i16,i32,Vec<u8>,Vec<u16>,Vec<u32>,String"],
    bounds={"quick": "scalars: all values; vectors: each length in 0..=2 (u16,u32) / {0,3} (u8), all element values; strings: symbolic ASCII content of length 0..=3, two symbolic characters below U+D800, four fixed strings with 1-, 2-, 3-byte characters", "thorough": "vectors: every length up to 6 (u8) / 5 (u16) / 4 (u32)"},
    outside="longer vectors (the code is length-uniform: one clone/copy of len*size bytes); string content beyond the listed instances (more than two non-ASCII characters, surrogate-range neighbours, 4-byte characters)",
    assumptions=["CBMC's memory model: pointer validity, bounds, double free, free of non-heap or foreign object are checked; allocator alignment of the deallocation layout is not"],
    not_decided=[],
    level_text="Bounded model checking with CBMC's pointer and allocation checks: for every value / every vector up to the length bound the bytes are the native-endian representation, equal values give equal bytes and different values different bytes, the argument is intact, and every allocation is freed exactly once (no use after free, no double free).",
    level_note="Trusted: Kani/CBMC memory model. Length bounded; a memory-safety counterexample is reported even when the native replay does not crash (undefined behaviour need not crash).",
    technique="Kani/CBMC bounded model checking with pointer/allocation checks",
)


# --------------------------------------------------------------------------------------- C13
_c13 = [
    H("c13_smh_f64_m1", 600, "thorough", "SuperMinHash<f64>::reinit from arbitrary content == new(1), every field", "m=1"),
    H("c13_smh_f64_m2", 600, "quick", "SuperMinHash<f64>::reinit from arbitrary content == new(m), every field", "m=2"),
    H("c13_smh_f64_m3", 600, "quick", "same", "m=3"),
    H("c13_smh_f64_m5", 600, "thorough", "same", "m=5"),
    H("c13_smh_f32_m3", 600, "thorough", "SuperMinHash<f32>::reinit", "m=3"),
    H("c13_smh2_m1", 600, "thorough", "SuperMinHash2<u64>::reinit from arbitrary content == new(1)", "m=1"),
    H("c13_smh2_m2", 600, "quick", "SuperMinHash2<u64>::reinit from arbitrary content == new(m) (shuffle: fresh representation)", "m=2"),
    H("c13_smh2_m3", 600, "quick", "same", "m=3"),
    H("c13_smh2_m5", 600, "thorough", "same", "m=5"),
    H("c13_ss_reinit_m2", 600, "thorough", "SetSketcher<u16>::reinit from arbitrary registers/lower bound/counters/shuffle == fresh state, parameters untouched", "m=2, any (b,a,q)"),
    H("c13_ss_reinit_m3", 600, "quick", "same", "m=3"),
    H("c13_ss_reinit_m5", 600, "thorough", "same", "m=5"),
    H("c13_ss_new_m3", 600, "quick", "SetSketcher::new gives the documented fresh state (ln_1p stubbed)", "m=3", stubs=["f64::ln_1p -> arbitrary finite value"]),
    H("c13_optdens_m1", 600, "thorough", "OptDensMinHash::reinit == new", "m=1"),
    H("c13_optdens_m3", 600, "quick", "OptDensMinHash::reinit from arbitrary content == new(m)", "m=3"),
    H("c13_optdens_m5", 600, "thorough", "same", "m=5"),
    H("c13_revdens_m1", 600, "thorough", "RevOptDensMinHash::reinit == new", "m=1"),
    H("c13_revdens_m3", 600, "quick", "RevOptDensMinHash::reinit from arbitrary content == new(m)", "m=3"),
    H("c13_revdens_m5", 600, "thorough", "same", "m=5"),
    H("c13_pmh2_m2", 600, "quick", "ProbMinHash2::reset from arbitrary signature/tracker/shuffle == new(m, initobj)", "m=2"),
    H("c13_pmh2_m3", 600, "quick", "same", "m=3"),
    H("c13_pmh2_m5", 900, "thorough", "same", "m=5"),
]
SPECS["C13"] = dict(
    level="model_checking", harnesses=_c13,
    functions=["SuperMinHash::{new, reinit}", "SuperMinHash2::{new, reinit}", "SetSketcher::{new, reinit}", "OptDensMinHash::{new, reinit}", "RevOptDensMinHash::{new, reinit}", "ProbMinHash2::{new, reset}", "MaxValueTracker::reset", "FYshuffle::reset"],
    bounds={"quick": "sketch sizes m in {2,3}", "thorough": "m in {1,2,3,5}"},
    outside="other sizes (the reset code is size-uniform loops / fills); ProbOrdMinHash2's self-clearing hash_set is covered under C11's differential harness, not here",
    assumptions=["pre-state: every field that any operation can modify holds an arbitrary value (no invariant assumed), vector lengths fixed to m; fields that no operation modifies (parameters, betas) are as built by new",
                 "equal full state + deterministic code (C12) => identical subsequent behaviour; the shuffle's two fresh representations (lastidx 0 / m) draw identically (C17 c17_reset_*)"],
    not_decided=[],
    level_text="Bounded model checking: from a sketcher whose every mutable field holds an arbitrary value, reinit/reset yields a state that is field-by-field the state built by new (exhaustive struct patterns make a newly added field a compile error rather than a silent omission).",
    level_note="Trusted: Kani/CBMC. Sizes bounded as listed; ln_1p stubbed in the constructor harness of SetSketcher.",
    technique="Kani/CBMC bounded model checking, full-state comparison after reset from a symbolic garbage state",
)


# --------------------------------------------------------------------------------------- C05
_c05 = [
    H("c05_merge_u16_m2", 900, "thorough", "SetSketcher<u16>::merge, equal parameters: position-wise max, commutative, idempotent, Inv (lower bound <= min register) kept, counters added, argument untouched", "m=2, all registers, all (b,a,q)"),
    H("c05_merge_u16_m3", 900, "quick", "same", "m=3"),
    H("c05_merge_u16_m5", 1200, "thorough", "same", "m=5"),
    H("c05_merge_u32_m3", 900, "quick", "SetSketcher<u32>::merge, equal parameters", "m=3"),
    H("c05_merge_assoc_m3", 900, "quick", "(x U y) U z == x U (y U z) at register level", "m=3, all u16 registers"),
    H("c05_merge_assoc_m4", 900, "thorough", "same", "m=4"),
    H("c05_merge_refused_m3", 900, "quick", "different (b|a|q): merge returns Err and every field of the receiver is unchanged", "m=3 both sides, symbolic (b,a,q) pairs"),
    H("c05_merge_refused_m3_m2", 900, "quick", "different m: refused, receiver unchanged", "m=3 vs 2"),
    H("c05_merge_refused_m2_m4", 900, "thorough", "different m (argument longer): refused, receiver unchanged", "m=2 vs 4"),
]
SPECS["C05"] = dict(
    level="model_checking", harnesses=_c05,
    functions=["SetSketcher::{merge, get_low_sketch}"],
    bounds={"quick": "m=3 (u16,u32), parameters symbolic with b in (1,2], a in [1e-3,1e6], any q", "thorough": "m in {2,3,4,5}"},
    outside="other sizes; parameter pairs closer than one relative epsilon are accepted by the code as equal parameters (its documented comparison): reported as an observation, not a violation",
    assumptions=["Inv: lower_k is a non-negative integer-valued f64 <= min register (base case: new/reinit under C13; preserved by sketch: c04_ss_step_*; preserved by merge: here)",
                 "overflow counters below 2^62 (their sum cannot wrap)",
                 "std::backtrace::Backtrace::capture stubbed to a disabled backtrace (anyhow! would otherwise walk the stack)"],
    not_decided=[],
    level_text="Bounded model checking of SetSketcher::merge on arbitrary register vectors and arbitrary parameter tuples: exact position-wise max (so merge == sketch of the union given the join lemma), commutative, associative, idempotent, invariant preserved (further streaming after a merge stays sound), refusal on different parameters leaves the receiver bit-identical. The join lemmas for SuperMinHash (min) and SetSketch (max) are the step harnesses c04_*.",
    level_note="Trusted: Kani/CBMC. Sizes bounded. The join lemma part of C05 is discharged by the C04 step harnesses (same evidence referenced there).",
    technique="Kani/CBMC bounded model checking over symbolic registers and parameters",
)


# --------------------------------------------------------------------------------------- C04
_LN = ["f64::ln -> memoised monotone NaN-free function with ln(x)>0 iff x>1"]


def _c04_ss_confirm(test_src, rdir):
    import check_taint
    return check_taint.c04_native_confirm(test_src, rdir)


_c04 = [
    H("c04_ss_step_u16_m2", 2400, "thorough", "SetSketcher<u16>::sketch from an arbitrary Inv-state: registers == max(old, unpruned contribution of the item), Inv kept, shuffle reset", "m=2, any registers, any (b,a,q<2^40), any item, any generator output", stubs=_LN, native_confirm=_c04_ss_confirm),
    H("c04_ss_step_u32_m2", 2400, "thorough", "SetSketcher<u32>::sketch step", "m=2", stubs=_LN, native_confirm=_c04_ss_confirm),
    H("c04_smh_step_f64_m2", 1800, "quick", "SuperMinHash<f64>::sketch from an arbitrary Inv-state: hsketch == position-wise min(old, unpruned contribution of the item); histogram/upper-bound invariant kept", "m=2"),
    H("c04_smh_step_f64_m3", 2400, "quick", "same", "m=3"),
    H("c04_smh_step_f64_m4", 3600, "thorough", "same", "m=4"),
    H("c04_smh_step_f32_m2", 1800, "thorough", "SuperMinHash<f32>::sketch step", "m=2"),
    H("c04_smh_step_f32_m3", 2400, "thorough", "same", "m=3"),
    H("c04_smh_step_f32_m4", 3600, "thorough", "same", "m=4"),
    H("c04_smh2_step_m2", 1800, "quick", "SuperMinHash2<u64>::sketch from an arbitrary Inv-state (dirty permutation generator): per position lexicographic min of (level, value) with the item's unpruned contribution, stored hash follows, Inv kept", "m=2"),
    H("c04_smh2_step_m3", 2400, "thorough", "same", "m=3"),
    H("c04_smh2_step_m4", 3600, "thorough", "same", "m=4"),
    H("c04_smh2_first_m3", 1800, "quick", "fresh SuperMinHash2: the first item writes its hash on every position", "m=3"),
    H("c04_opt_step_m1", 900, "thorough", "OptDensMinHash::sketch step: chosen bin keeps the smaller r (tie: later item), others untouched, Inv kept, (r,bin) = documented function of the item stream", "m=1"),
    H("c04_opt_step_m2", 900, "quick", "same", "m=2"),
    H("c04_opt_step_m3", 900, "quick", "same", "m=3"),
    H("c04_opt_step_m4", 1200, "thorough", "same", "m=4"),
    H("c04_rev_step_m2", 900, "thorough", "RevOptDensMinHash::sketch step", "m=2"),
    H("c04_rev_step_m3", 900, "quick", "same", "m=3"),
    H("c04_rev_step_m4", 1200, "thorough", "same", "m=4"),
]
SPECS["C04"] = dict(
    level="model_checking", harnesses=_c04, lemmas=[__import__("pmhv").lemma_wmul_allones],
    functions=["SuperMinHash::sketch (f64, f32)", "SuperMinHash2::sketch (u64)", "SetSketcher::sketch (u16, u32)", "OptDensMinHash::sketch", "RevOptDensMinHash::sketch",
               "FYshuffle::{reset,next}", "rand::distr::Uniform<f64|f32|usize|u64>::sample (vendored rand, rejection loop cut)", "NoHashHasher"],
    bounds={"quick": "SuperMinHash f64 m in {2,3}; SuperMinHash2 m=2 (+ first item m=3); OptDens m in {2,3}; RevOptDens m=3; one symbolic item per step, stream length unbounded by induction (the SetSketch step takes 10 min and is in the thorough tier: quick checks are stopped after 900 s)",
            "thorough": "SuperMinHash f64/f32 m in {2,3,4}; SuperMinHash2 m in {2,3,4}; SetSketch u16 m=2 and u32 m=2 with a=16, ln b=1/2 concrete (m=3 does not finish within 60 min: not registered); OptDens m in 1..=4; RevOptDens m in 2..=4"},
    outside="sketch sizes above the listed ones; exact (level, value) ties between DIFFERENT items in SuperMinHash2 are resolved by the code as 'later item wins' (64-bit values: probability 2^-64 per pair): the lemma is stated with that tie rule; the densified sketchers keep the minimum of (r, hash), so their ties are order independent (repaired, D8); SetSketch: the half-ulp boundary where the float subtraction 1 - log_b(x) rounds up onto an integer (there the code's two pruning tests differ by one unit) is excluded by assumption; chunking/sketch_slice for SuperMinHash*/SetSketch is a plain loop over sketch (read, not encoded); densified sketch_slice vs item-wise is c09_*_slice_*",
    assumptions=["per-item generator = memoised oracle keyed by the item hash (models/rand_xoshiro); Exp1 = arbitrary finite f64 >= 0 that is a function of one draw (models/rand_distr); Lemire rejections excluded (models/rand)",
                 "representation invariants written in the harness files (SuperMinHash: b[] = histogram of clamped integer parts, a_upper = its top, lazy-reset marker < item_rank; SuperMinHash2: b[] = histogram of levels; SetSketch: lower_k integral and <= min register; densified: nb_empty counts unpopulated bins which hold the initial pair): base case = C13 harnesses, preservation = these harnesses",
                 "f64::ln stubbed by a memoised monotone NaN-free function with ln(x) > 0 iff x > 1 (SetSketch step only)",
                 "SMT lemma for ranges 2^w-1 (hi word of x*(2^w-1) is x-1), proved by cvc5 on every run"],
    not_decided=[],
    level_text="Bounded model checking of ONE sketch call from an arbitrary state satisfying the representation invariant, differential against a reference that recomputes the item's full contribution from the same per-item stream with no pruning: the new sketch is the position-wise join (min / lexicographic min / max / minimum of (r, hash)) of the old sketch and a contribution that depends on the item only, and the invariant is kept. By induction over the stream this gives order independence, duplicate insensitivity and chunking independence for streams of any length, and 'stored hashes are hashes of streamed items'.",
    level_note="Trusted: Kani/CBMC, the environment models, the invariants (checked inductive). Sizes bounded as listed; ties and one rounding boundary excluded as stated.",
    technique="Kani/CBMC bounded model checking, inductive step differential against an unpruned join reference",
)

# --------------------------------------------------------------------------------------- C09
_NU = ["--no-unwinding-checks"]
_c09 = [
    H("c09_opt_densify_m1_p1", 1800, "thorough", "OptDensMinHash::end_sketch from any Inv-state with populated bins = bit mask 0b1: populated bins bit-identical, every other bin gets the (value,hash) pair of a previously populated bin, nb_empty==0, stream keys depend on the bin position only, second end_sketch changes nothing", "m=1; searches of <= 2 draws per empty bin", extra=_NU),
    H("c09_opt_densify_m2_p1", 1800, "quick", "OptDensMinHash::end_sketch from any Inv-state with populated bins = bit mask 0b1: populated bins bit-identical, every other bin gets the (value,hash) pair of a previously populated bin, nb_empty==0, stream keys depend on the bin position only, second end_sketch changes nothing", "m=2; searches of <= 3 draws per empty bin", extra=_NU),
    H("c09_opt_densify_m2_p2", 1800, "thorough", "OptDensMinHash::end_sketch from any Inv-state with populated bins = bit mask 0b10: populated bins bit-identical, every other bin gets the (value,hash) pair of a previously populated bin, nb_empty==0, stream keys depend on the bin position only, second end_sketch changes nothing", "m=2; searches of <= 3 draws per empty bin", extra=_NU),
    H("c09_opt_densify_m3_p1", 1800, "thorough", "OptDensMinHash::end_sketch from any Inv-state with populated bins = bit mask 0b1: populated bins bit-identical, every other bin gets the (value,hash) pair of a previously populated bin, nb_empty==0, stream keys depend on the bin position only, second end_sketch changes nothing", "m=3; searches of <= 4 draws per empty bin", extra=_NU),
    H("c09_opt_densify_m3_p2", 1800, "quick", "OptDensMinHash::end_sketch from any Inv-state with populated bins = bit mask 0b10: populated bins bit-identical, every other bin gets the (value,hash) pair of a previously populated bin, nb_empty==0, stream keys depend on the bin position only, second end_sketch changes nothing", "m=3; searches of <= 4 draws per empty bin", extra=_NU),
    H("c09_opt_densify_m3_p3", 1800, "thorough", "OptDensMinHash::end_sketch from any Inv-state with populated bins = bit mask 0b11: populated bins bit-identical, every other bin gets the (value,hash) pair of a previously populated bin, nb_empty==0, stream keys depend on the bin position only, second end_sketch changes nothing", "m=3; searches of <= 4 draws per empty bin", extra=_NU),
    H("c09_opt_densify_m3_p4", 1800, "thorough", "OptDensMinHash::end_sketch from any Inv-state with populated bins = bit mask 0b100: populated bins bit-identical, every other bin gets the (value,hash) pair of a previously populated bin, nb_empty==0, stream keys depend on the bin position only, second end_sketch changes nothing", "m=3; searches of <= 4 draws per empty bin", extra=_NU),
    H("c09_opt_densify_m3_p5", 1800, "quick", "OptDensMinHash::end_sketch from any Inv-state with populated bins = bit mask 0b101: populated bins bit-identical, every other bin gets the (value,hash) pair of a previously populated bin, nb_empty==0, stream keys depend on the bin position only, second end_sketch changes nothing", "m=3; searches of <= 4 draws per empty bin", extra=_NU),
    H("c09_opt_densify_m3_p6", 1800, "thorough", "OptDensMinHash::end_sketch from any Inv-state with populated bins = bit mask 0b110: populated bins bit-identical, every other bin gets the (value,hash) pair of a previously populated bin, nb_empty==0, stream keys depend on the bin position only, second end_sketch changes nothing", "m=3; searches of <= 4 draws per empty bin", extra=_NU),
    H("c09_opt_densify_m4_p1", 1800, "thorough", "OptDensMinHash::end_sketch from any Inv-state with populated bins = bit mask 0b1: populated bins bit-identical, every other bin gets the (value,hash) pair of a previously populated bin, nb_empty==0, stream keys depend on the bin position only, second end_sketch changes nothing", "m=4; searches of <= 5 draws per empty bin", extra=_NU),
    H("c09_opt_densify_m4_p2", 1800, "thorough", "OptDensMinHash::end_sketch from any Inv-state with populated bins = bit mask 0b10: populated bins bit-identical, every other bin gets the (value,hash) pair of a previously populated bin, nb_empty==0, stream keys depend on the bin position only, second end_sketch changes nothing", "m=4; searches of <= 5 draws per empty bin", extra=_NU),
    H("c09_opt_densify_m4_p3", 1800, "thorough", "OptDensMinHash::end_sketch from any Inv-state with populated bins = bit mask 0b11: populated bins bit-identical, every other bin gets the (value,hash) pair of a previously populated bin, nb_empty==0, stream keys depend on the bin position only, second end_sketch changes nothing", "m=4; searches of <= 5 draws per empty bin", extra=_NU),
    H("c09_opt_densify_m4_p4", 1800, "thorough", "OptDensMinHash::end_sketch from any Inv-state with populated bins = bit mask 0b100: populated bins bit-identical, every other bin gets the (value,hash) pair of a previously populated bin, nb_empty==0, stream keys depend on the bin position only, second end_sketch changes nothing", "m=4; searches of <= 5 draws per empty bin", extra=_NU),
    H("c09_opt_densify_m4_p5", 1800, "thorough", "OptDensMinHash::end_sketch from any Inv-state with populated bins = bit mask 0b101: populated bins bit-identical, every other bin gets the (value,hash) pair of a previously populated bin, nb_empty==0, stream keys depend on the bin position only, second end_sketch changes nothing", "m=4; searches of <= 5 draws per empty bin", extra=_NU),
    H("c09_opt_densify_m4_p6", 1800, "thorough", "OptDensMinHash::end_sketch from any Inv-state with populated bins = bit mask 0b110: populated bins bit-identical, every other bin gets the (value,hash) pair of a previously populated bin, nb_empty==0, stream keys depend on the bin position only, second end_sketch changes nothing", "m=4; searches of <= 5 draws per empty bin", extra=_NU),
    H("c09_opt_densify_m4_p7", 1800, "thorough", "OptDensMinHash::end_sketch from any Inv-state with populated bins = bit mask 0b111: populated bins bit-identical, every other bin gets the (value,hash) pair of a previously populated bin, nb_empty==0, stream keys depend on the bin position only, second end_sketch changes nothing", "m=4; searches of <= 5 draws per empty bin", extra=_NU),
    H("c09_opt_densify_m4_p8", 1800, "thorough", "OptDensMinHash::end_sketch from any Inv-state with populated bins = bit mask 0b1000: populated bins bit-identical, every other bin gets the (value,hash) pair of a previously populated bin, nb_empty==0, stream keys depend on the bin position only, second end_sketch changes nothing", "m=4; searches of <= 5 draws per empty bin", extra=_NU),
    H("c09_opt_densify_m4_p9", 1800, "thorough", "OptDensMinHash::end_sketch from any Inv-state with populated bins = bit mask 0b1001: populated bins bit-identical, every other bin gets the (value,hash) pair of a previously populated bin, nb_empty==0, stream keys depend on the bin position only, second end_sketch changes nothing", "m=4; searches of <= 5 draws per empty bin", extra=_NU),
    H("c09_opt_densify_m4_p10", 1800, "thorough", "OptDensMinHash::end_sketch from any Inv-state with populated bins = bit mask 0b1010: populated bins bit-identical, every other bin gets the (value,hash) pair of a previously populated bin, nb_empty==0, stream keys depend on the bin position only, second end_sketch changes nothing", "m=4; searches of <= 5 draws per empty bin", extra=_NU),
    H("c09_opt_densify_m4_p11", 1800, "thorough", "OptDensMinHash::end_sketch from any Inv-state with populated bins = bit mask 0b1011: populated bins bit-identical, every other bin gets the (value,hash) pair of a previously populated bin, nb_empty==0, stream keys depend on the bin position only, second end_sketch changes nothing", "m=4; searches of <= 5 draws per empty bin", extra=_NU),
    H("c09_opt_densify_m4_p12", 1800, "thorough", "OptDensMinHash::end_sketch from any Inv-state with populated bins = bit mask 0b1100: populated bins bit-identical, every other bin gets the (value,hash) pair of a previously populated bin, nb_empty==0, stream keys depend on the bin position only, second end_sketch changes nothing", "m=4; searches of <= 5 draws per empty bin", extra=_NU),
    H("c09_opt_densify_m4_p13", 1800, "thorough", "OptDensMinHash::end_sketch from any Inv-state with populated bins = bit mask 0b1101: populated bins bit-identical, every other bin gets the (value,hash) pair of a previously populated bin, nb_empty==0, stream keys depend on the bin position only, second end_sketch changes nothing", "m=4; searches of <= 5 draws per empty bin", extra=_NU),
    H("c09_opt_densify_m4_p14", 1800, "thorough", "OptDensMinHash::end_sketch from any Inv-state with populated bins = bit mask 0b1110: populated bins bit-identical, every other bin gets the (value,hash) pair of a previously populated bin, nb_empty==0, stream keys depend on the bin position only, second end_sketch changes nothing", "m=4; searches of <= 5 draws per empty bin", extra=_NU),
    H("c09_rev_densify_m1_p1", 1800, "thorough", "RevOptDensMinHash::end_sketch, populated bins = bit mask 0b1, same assertions; stream keys depend on (position, pass) only", "m=1; <= 3 passes", extra=_NU),
    H("c09_rev_densify_m2_p1", 1800, "thorough", "RevOptDensMinHash::end_sketch, populated bins = bit mask 0b1, same assertions; stream keys depend on (position, pass) only", "m=2; <= 3 passes", extra=_NU),
    H("c09_rev_densify_m2_p2", 1800, "thorough", "RevOptDensMinHash::end_sketch, populated bins = bit mask 0b10, same assertions; stream keys depend on (position, pass) only", "m=2; <= 3 passes", extra=_NU),
    H("c09_rev_densify_m3_p1", 1800, "thorough", "RevOptDensMinHash::end_sketch, populated bins = bit mask 0b1, same assertions; stream keys depend on (position, pass) only", "m=3; <= 4 passes", extra=_NU),
    H("c09_rev_densify_m3_p2", 1800, "thorough", "RevOptDensMinHash::end_sketch, populated bins = bit mask 0b10, same assertions; stream keys depend on (position, pass) only", "m=3; <= 4 passes", extra=_NU),
    H("c09_rev_densify_m3_p3", 1800, "thorough", "RevOptDensMinHash::end_sketch, populated bins = bit mask 0b11, same assertions; stream keys depend on (position, pass) only", "m=3; <= 4 passes", extra=_NU),
    H("c09_rev_densify_m3_p4", 1800, "thorough", "RevOptDensMinHash::end_sketch, populated bins = bit mask 0b100, same assertions; stream keys depend on (position, pass) only", "m=3; <= 4 passes", extra=_NU),
    H("c09_rev_densify_m3_p5", 1800, "thorough", "RevOptDensMinHash::end_sketch, populated bins = bit mask 0b101, same assertions; stream keys depend on (position, pass) only", "m=3; <= 4 passes", extra=_NU),
    H("c09_rev_densify_m3_p6", 1800, "thorough", "RevOptDensMinHash::end_sketch, populated bins = bit mask 0b110, same assertions; stream keys depend on (position, pass) only", "m=3; <= 4 passes", extra=_NU),
    H("c09_opt_slice_full_m2", 1200, "quick", "OptDensMinHash: sketch_slice(&[a]) == sketch(a) from an arbitrary FULLY populated state (item label concrete, its bin concrete via a preset slot draw, r and the state symbolic)", "m=2", extra=_NU),
    H("c09_opt_slice_full_m3", 1800, "thorough", "same", "m=3", extra=_NU),
    H("c09_rev_slice_full_m2", 1200, "quick", "RevOptDensMinHash: sketch_slice(&[a]) == sketch(a) from an arbitrary fully populated state", "m=2", extra=_NU),
    H("c09_rev_slice_full_m3", 1800, "thorough", "same", "m=3", extra=_NU),
    H("c09_opt_slice_m2", 3600, "thorough", "OptDensMinHash: sketch_slice(&[a,b]) == sketch(a); sketch(b); end_sketch() from the same arbitrary state (shared oracle)", "m=2", extra=_NU),
    H("c09_opt_slice_m3", 3600, "thorough", "same", "m=3", extra=_NU),
    H("c09_rev_slice_m2", 3600, "thorough", "RevOptDensMinHash: sketch_slice == item-wise + end_sketch", "m=2", extra=_NU),
    H("c09_rev_slice_m3", 3600, "thorough", "same", "m=3", extra=_NU),
    H("c09_opt_views_m2", 900, "quick", "OptDensMinHash views: float view == stored r, u64 view == stored hash, u32 view == murmur3_32(hash bytes, 127) at every position", "m=2"),
    H("c09_rev_views_m2", 900, "thorough", "RevOptDensMinHash views", "m=2"),
    H("c09_opt_empty_end_m2", 600, "quick", "nothing streamed: OptDensMinHash::end_sketch must not search for a populated bin (it reports failure)", "m=2, <= 7 loop iterations", expect_cover="none", unwind_is_violation=True),
    H("c09_opt_empty_slice_m2", 600, "quick", "nothing streamed: OptDensMinHash::sketch_slice(&[]) returns Err without drawing", "m=2", unwind_is_violation=True),
    H("c09_rev_empty_end_m2", 600, "quick", "nothing streamed: RevOptDensMinHash::end_sketch reports failure instead of looping", "m=2", expect_cover="none", unwind_is_violation=True),
    H("c09_rev_empty_slice_m2", 600, "quick", "nothing streamed: RevOptDensMinHash::sketch_slice(&[]) returns Err", "m=2", unwind_is_violation=True),
]
SPECS["C09"] = dict(
    level="model_checking", harnesses=_c09,
    functions=["OptDensMinHash::{sketch, sketch_slice, end_sketch, densify, get_hsketch, get_hsketch_u64, get_hsketch_u32}", "RevOptDensMinHash::{same}", "murmur3::murmur3_32", "rand::distr::Uniform<usize>::sample"],
    bounds={"quick": "OptDens densification m in {2,3} (3 population patterns), slice == item-wise from full states (both sketchers), views, empty-stream fail-fast (both sketchers); RevOptDens densification is in the thorough tier (6-10 min per pattern: quick checks are stopped after 900 s)", "thorough": "m in {1,2,3,4}"},
    outside="searches longer than the unwinding bound (the harnesses run with --no-unwinding-checks: executions that need more draws are cut by an assumption; that the real ChaCha12 stream hits a populated bin at all is outside the claim because ChaCha12 does not encode); m > 4",
    assumptions=["ChaCha12Rng = memoised oracle keyed by its seed (models/rand_chacha); Lemire rejections excluded",
                 "pre-state invariant Inv (nb_empty counts the unpopulated bins, unpopulated bins hold the initial pair, populated bins hold r in [0,1)): base case C13, preserved by sketch (c04_*_step_*)",
                 "termination for non-empty streams: assumed within the bound; for the EMPTY stream it is checked (no iteration may happen)"],
    not_decided=[],
    level_text="Bounded model checking of densification from an arbitrary pre-densification state under an oracle generator: populated bins untouched, copied pairs come from populated bins, idempotent, position-only stream keys, slice == item-wise, the three views are fixed functions of the stored pair; and on the empty stream finishing must fail fast instead of searching.",
    level_note="Trusted: Kani/CBMC, ChaCha oracle model. Non-empty termination only within the unwinding bound (stated).",
    technique="Kani/CBMC bounded model checking with an oracle RNG model; unwinding assertion as non-termination detector on the empty stream",
)



# --------------------------------------------------------------------------------------- C02
_c02 = [
    H("c02_pmh3_step_m2_n2_w1", 1200, "quick", "ProbMinHash3::hash_item step lemma, weight 1, first 2 points of the item", "m=2, 2 points, weight 1.0, states with max register <= 2/w"),
    H("c02_pmh3_step_m2_n3_w1", 1800, "thorough", "ProbMinHash3::hash_item step lemma, weight 1", "m=2, 3 points, weight 1.0"),
    H("c02_pmh3_step_m3_n4_w1", 5400, "thorough", "same", "m=3, 4 points, weight 1.0"),
    H("c02_pmh2_step_m2_w1", 1800, "quick", "ProbMinHash2::hash_item step lemma, weight 1", "m=2, weight 1.0"),
    H("c02_pmh3_step_m2_n3", 3600, "thorough", "ProbMinHash3::hash_item from an arbitrary state (tracker Inv): registers == min(old, best point per position of the item's unpruned race), signature follows the strict minimum, tracker Inv kept", "m=2, first 3 points of the item, weight = any 2^e (|e|<=40), states with max register <= 3/w"),
    H("c02_pmh2_step_m2", 3600, "thorough", "ProbMinHash2::hash_item from an arbitrary state (tracker Inv, dirty permutation generator): registers == min(old, the item's point at that position), signature follows, Inv kept", "m=2, weight any 2^e"),
]
SPECS["C02"] = dict(
    level="model_checking", harnesses=_c02,
    functions=["ProbMinHash3::hash_item", "ProbMinHash2::hash_item", "MaxValueTracker::{update,get_value,get_max_value}", "FYshuffle::{reset,next}", "ExpRestricted01::sample (fast path)", "rand Uniform<usize>/<f64>::sample"],
    bounds={"quick": "ProbMinHash3 m=2 (3 points per item), ProbMinHash2 m=2; weight 1.0; registers, signature, item and all generator outputs symbolic",
            "thorough": "ProbMinHash3: m=2 with every weight 2^e, |e| <= 40 (symbolic), and m=3 (4 points) with weight 1; ProbMinHash2: m=2 with every weight 2^e (m=3 and non-power-of-two weights did not finish within 40 min and are not registered)"},
    outside="ProbMinHash3a / 3aSha (their two-pass buffer is not encoded: IndexMap/HashMap + SHA-512 under CBMC are out of reach within the caps; 3 == 3a is therefore NOT decided), hash_wset / map entry points (plain loops over hash_item: read, not encoded), m > 3 for ProbMinHash3 and m > 2 for ProbMinHash2 (larger instances did not finish within 40-90 min), weights that are not powers of two, items whose race lasts longer than N points (ProbMinHash3: states with max register > N/w), 'every position of a non-empty set is filled' (needs the race of the first item to reach all positions: unbounded under an arbitrary oracle), exact float ties between different items",
    assumptions=["tracker invariant (C15)", "per-item generator = memoised oracle keyed by the item hash; Exp1 = arbitrary finite f64 >= 0 per draw",
                 "ProbMinHash3 harnesses use the real ExpRestricted01 code with c1 = 1 (the lambda -> 0 limit: one draw per sample, value in [0,1)); its rejection loop is checked under C16",
                 "ProbMinHash2: permutation generator in an arbitrary (dirty) reachable state before the call"],
    not_decided=["ProbMinHash3 and ProbMinHash3a produce the same signature", "scaling all weights by a power of two (follows from the step lemma only for the power-of-two instances: registers scale exactly; not encoded as its own query)",
                 "placeholder/foreign item clause beyond: a position changes only to the inserted id (step lemma) and keeps its register otherwise"],
    level_text="Bounded model checking of one hash_item call (ProbMinHash3, ProbMinHash2) from an arbitrary state, differential against the item's unpruned race recomputed from the same stream: registers are exact position-wise minima, the signature follows the strict minimum, the stop rule never drops a winning point, the generator is consumed in the documented order, the tracker invariant is kept. Induction over the stream gives insertion-order, batching and re-insertion independence and position-wise composition of unions.",
    level_note="Trusted: Kani/CBMC, environment models, tracker invariant. Bounded sizes/points/weights as listed; ProbMinHash3a/3aSha not encoded (stated).",
    technique="Kani/CBMC bounded model checking, inductive step differential against an unpruned race reference",
)

# --------------------------------------------------------------------------------------- C16
_XM1 = ["f64::exp_m1 -> arbitrary value (it only selects accept/reject in the last test, never the returned value)"]
_NU1 = ["--no-unwinding-checks"]
_c16 = [
    H("c16_support_any_constants", 1800, "quick", "ExpRestricted01::sample: every return yields 0 <= x < 1; constants symbolic within the ranges new() produces (c1>=1, 0<c2<=1/2, 0<c3<=1)", "one iteration of the (state-free) rejection loop; every generator output", stubs=_XM1, extra=_NU1),
    H("c16_support_m2", 900, "quick", "same with the constants of lambda = ln 2 (ProbMinHash3 with m = 2)", "one loop iteration", stubs=_XM1, extra=_NU1),
    H("c16_support_m3", 900, "thorough", "same, lambda = ln(3/2)", "one loop iteration", stubs=_XM1, extra=_NU1),
    H("c16_support_m5", 900, "thorough", "same, lambda = ln(5/4)", "one loop iteration", stubs=_XM1, extra=_NU1),
]
_TB = ["f64::exp_m1 / f64::exp / f64::ln -> tables with the libm values of exactly the arguments new(lambda) passes (computed natively); arbitrary elsewhere"]
def _c16_confirm(test_src, rdir):
    import native_c16
    return native_c16.confirm(test_src, rdir)


# iso: these run in a scratch copy in which only harness/exp01_new.rs is mounted (they keep compiling when the field
# layout of ExpRestricted01 changes); libm is stubbed by tables, so a counterexample is confirmed by a native search
_c16 += [
    H("c16_support_new_m2", 900, "quick", "ExpRestricted01::new(ln 2) built by the real constructor, then sample: every return in [0,1)", "lambda = ln 2; one loop iteration", stubs=_TB, extra=_NU1, iso="exp01_new", native_confirm=_c16_confirm),
    H("c16_support_new_m3", 900, "thorough", "same, lambda = ln(3/2)", "one loop iteration", stubs=_TB, extra=_NU1, iso="exp01_new", native_confirm=_c16_confirm),
    H("c16_support_new_m5", 900, "thorough", "same, lambda = ln(5/4)", "one loop iteration", stubs=_TB, extra=_NU1, iso="exp01_new", native_confirm=_c16_confirm),
    H("c16_support_new_anyc1", 1500, "quick", "ExpRestricted01::new(1.0) by the real constructor with exp_m1(1) replaced by an arbitrary v in [1, 1e6] (c1 symbolic, everything new() derives from it computed by the real code), then sample: every return in [0,1)", "lambda = 1, c1 in [1, 1e6] symbolic; one loop iteration",
      stubs=["f64::exp_m1(1.0) -> arbitrary v in [1, 1e6], arbitrary elsewhere; f64::exp -> arbitrary value in (0,1]; f64::ln -> arbitrary non-NaN value"], extra=_NU1, iso="exp01_new", native_confirm=_c16_confirm),
]
SPECS["C16"] = dict(
    level="model_checking", harnesses=_c16,
    functions=["exp01::ExpRestricted01::{new, sample}", "rand::distr::Uniform<f64>::{new, sample}"],
    bounds={"quick": "constants symbolic (ranges above), the lambda = ln 2 instance (literal and real constructor) and the real constructor at lambda = 1 with c1 symbolic in [1, 1e6]; one iteration of the rejection loop", "thorough": "plus lambda = ln(3/2), ln(5/4)"},
    outside="the LAW of the samples ((1-exp(-lambda x))/(1-exp(-lambda)) is an area under exp: a measure, not decidable by a solver) - NOT decided; further iterations of the rejection loop (it is state-free: an iteration starts from the same state with fresh draws, so one iteration covers all)",
    assumptions=["generator = oracle (any u64 per draw)", "exp_m1 havocked", "literal-sampler instances: constants within the ranges that new(lambda) yields mathematically", "constructor instances (c16_support_new_*): the real new(lambda) is encoded with exp_m1/exp/ln replaced by tables of libm values (lambda = ln 2, ln 3/2, ln 5/4) or by arbitrary values (lambda = 1: exp_m1(1) in [1, 1e6]); they run in a scratch copy with only harness/exp01_new.rs mounted; their counterexamples are confirmed natively with the real libm (native/c16) before being reported"],
    not_decided=["the samples follow the truncated exponential law (distributional clause)"],
    level_text="Bounded model checking of the support clause only: for every generator output and every admissible constant triple, each return of ExpRestricted01::sample is in [0,1); all three acceptance paths are shown reachable.",
    level_note="Trusted: Kani/CBMC, oracle RNG model. The distributional clause of C16 is not decided. Rejection loop cut after one iteration (--no-unwinding-checks), justified by the loop being state-free.",
    technique="Kani/CBMC bounded model checking (support only), libm stub",
)

# --------------------------------------------------------------------------------------- C07
_PW = ["f64::powf -> arbitrary value in the enclosure [1, sqrt(b)(1+4eps)] for b in (1,2], exponent in [0,1/2]; exact 1 at exponent 0"]
def _c07_confirm(test_src, rdir):
    import native_c07
    return native_c07.confirm(test_src, rdir)


_c07 = [H("c07_bounds_b%d" % i, 2400, "thorough" if i not in (0, 6) else "quick", "SetSketchParams::get_jaccard_bounds returns (no abort), lo<=hi, lo>=0, both finite", "b in [%s], every jac in [0,1]" % r, stubs=_PW, native_confirm=_c07_confirm)
        for i, r in enumerate(["1.00001,1.0001", "1.0001,1.001", "1.001,1.01", "1.01,1.1", "1.1,1.3", "1.3,1.6", "1.6,2.0"])]
_c07.append(H("c07_bounds_ball", 3600, "thorough", "same", "b in [1.00001, 2], every jac in [0,1]", stubs=_PW, native_confirm=_c07_confirm))
SPECS["C07"] = dict(
    level="model_checking", harnesses=_c07,
    functions=["setsketcher::SetSketchParams::get_jaccard_bounds"],
    bounds={"quick": "b in [1.00001,1.0001] and [1.6,2.0] (both ends of the range), every jac in [0,1] (all f64 values)", "thorough": "b in [1.00001, 2] split in 7 sub-ranges plus the whole range"},
    outside="b in (1, 1.00001); 'the interval contains the true Jaccard index within 1e-4' (real analysis over b^x) and the collision-probability clause (an expectation) are NOT decided",
    assumptions=["powf replaced by an arbitrary value inside its enclosure; sqrt, *, /, -, max are IEEE-exact in CBMC's float theory"],
    not_decided=["expected fraction of equal registers equals the collision probability (expectation)", "the interval contains the true Jaccard index up to 1e-4 (needs the real function b^x)"],
    level_text="Bounded model checking of the bounds function only: for every b in the range and every collision fraction in [0,1] the call returns, both ends are finite, 0 <= lower <= upper.",
    level_note="Trusted: Kani/CBMC float theory; powf stubbed by an enclosure (a counterexample is therefore confirmed by a native search with the real libm before it is reported).",
    technique="Kani/CBMC bounded model checking over f64 with a libm enclosure stub",
)


# --------------------------------------------------------------------------------------- C11
_c11 = [
    H("c11_store_m2_l1", 900, "quick", "OrdMinHashStore::update_with_maxtracker from any sorted store: pair enters iff it beats the l-th smallest value of the position; lists stay sorted; other positions untouched; tracker slot == l-th value", "m=2,l=1"),
    H("c11_store_m2_l2", 1200, "quick", "same", "m=2,l=2"),
    H("c11_store_m3_l3", 2400, "thorough", "same", "m=3,l=3"),
]
SPECS["C11"] = dict(
    level="model_checking", harnesses=_c11,
    functions=["OrdMinHashStore::update_with_maxtracker", "MaxValueTracker::{update,get_value}"],
    bounds={"quick": "store step m=2, l in {1,2}", "thorough": "store step m=3, l=3"},
    outside="ProbOrdMinHash2::hash_set end to end is NOT encoded: its occurrence counter is a std HashMap, whose hashbrown SIMD group probing needs unwind 17 per lookup and did not leave symbolic execution in 60 min even with concrete keys; Kani 0.68 rejects stubs for HashMap::get_mut (region mismatch in the signature check). Therefore the clauses 'selection depends only on the multiset', 'l = 1 signature invariant under permutation' and the self-clearing part of C13 for ProbOrdMinHash2 are not decided; only the per-position insertion rule they rest on is. Seen by reading, out of reach of the harnesses: hash_set stops offering a pair at the first position that rejects it (`if !inserted { break; }`), although later positions could still accept its (larger) next value.",
    assumptions=["store invariant: per position the l values ascend and the tracker slot equals the l-th value (holds after reset; preserved: checked)", "offered values are not NaN"],
    not_decided=["which (element, occurrence) pairs are selected depends only on the multiset of elements", "for l = 1 the signature is invariant under every permutation of the sequence", "every signature position is the combined hash of l elements taken in sequence order (create_signature sorts the selected indices: read, not encoded)"],
    level_text="Store-level step lemma only: from any store whose per-position lists are sorted and whose tracker slots equal the l-th values, one offered (value, index) pair enters a position iff it beats that position's l-th smallest value, is inserted in order, the largest is dropped, other positions are untouched, and the tracker stays exact - so the outer stop test `x < max` is exact.",
    level_note="Trusted: Kani/CBMC. hash_set itself is out of reach (HashMap); the order-independence clauses of C11 are not decided (stated).",
    technique="Kani/CBMC bounded model checking, step lemma over a symbolic sorted store",
)

# --------------------------------------------------------------------------------------- C20
def _c20(prop, spec, tier, seed, args):
    import check_taint
    return check_taint.run_c20(prop, spec, tier, seed, args)


SPECS["C20"] = dict(
    level="other", custom=_c20, engine_name="mir-smt", harnesses=[],
    level_text="Error path, truncating open and dumped-value identity: an SMT entailment query over the data-flow implications of the current tree's MIR shows that the Result of parsing parameters.json never reaches an unwrap/expect/unwrap_or* call in reload_json (so a torn file yields Err: no abort, no substituted parameters); a reached sink is confirmed natively on every prefix of a dumped file before it is reported. Dump side: a second entailment query shows that a truncating open (OpenOptions::truncate(true) / File::create / set_len / rename) reaches the writer handed to to_writer in dump_json (a dump over an older, longer file must reload); a missing one is confirmed natively before it is reported. Value side: a third family of entailment queries shows that no computed value (arithmetic, numeric cast, call result) reaches the value argument of any serde serialize_* call in the crate's Serialize code - the stored field itself is dumped; a computed value is confirmed natively (dump, reload, compare with the tolerance the property states) before it is reported.",
    level_note="Trusted: rustc MIR dump, lib/smt_taint.py (flow-insensitive may-analysis over assignments, calls, &mut arguments), z3/cvc5, serde_json's contract that a strict prefix of a JSON object is an error. Of the value round-trip clause only 'the stored fields themselves are handed to the serializer' is decided; exactness of serde_json's / ryu's text conversion is NOT decided (trusted; observed natively within one unit in the last place for four parameter tuples).",
    technique="MIR data-flow implications, entailment decided by z3 and cvc5; native prefix enumeration only as replay",
)


# --------------------------------------------------------------------------------------- C12
def _c12(prop, spec, tier, seed, args):
    import check_taint
    return check_taint.run_c12(prop, spec, tier, seed, args)


_c12h = [
    H("c12_smh_f64_m2", 1800, "quick", "two SuperMinHash<f64> built by new(): same item -> every field bit-identical", "m=2, one symbolic item"),
    H("c12_smh_f32_m3", 2400, "thorough", "same, f32", "m=3"),
    H("c12_smh2_m2", 1800, "thorough", "two SuperMinHash2: same item -> identical", "m=2"),
    H("c12_optdens_m2", 1800, "quick", "two OptDensMinHash: same item -> identical bins", "m=2"),
    H("c12_revdens_m2", 1800, "thorough", "two RevOptDensMinHash: same item -> identical bins", "m=2"),
    H("c12_pmh2_m2", 1800, "thorough", "two ProbMinHash2: same weighted item -> identical signature and registers", "m=2, weight any 2^e"),
]
SPECS["C12"] = dict(
    level="model_checking", custom=_c12, harnesses=_c12h,
    functions=["part 1 (Kani): SuperMinHash::{new,sketch}, SuperMinHash2::{new,sketch}, OptDensMinHash/RevOptDensMinHash::{new,sketch,end_sketch}, ProbMinHash2::{new,hash_item}",
               "part 2 (MIR data flow): every function of the crate; sinks = fields built by every new/default, seed arguments of every seed_from_u64/from_seed/with_seed call"],
    bounds={"quick": "part 1: m=2, one symbolic item per sketcher; part 2: whole crate, no bound", "thorough": "part 1 adds f32 / SuperMinHash2 / RevOptDens instances"},
    outside="thread interleavings and process launches are not explored by a solver: 'concurrent instances / other processes' is reduced to 'no entropy source (OS randomness, ThreadRng, RandomState::new, time, addresses, environment) reaches a constructor field or a generator seed' (part 2) and confirmed natively (2 processes x (2 sequential + 2 concurrent instances)) only when part 2 reports a flow; flows through statics / raw pointers / interior mutability are not seen by part 2",
    assumptions=["part 1: per-item generators are oracles shared by both instances (a function of the seed): instance-specific state can only differ through code that Kani would report as an unsupported foreign call (OS entropy)",
                 "part 2: flow-insensitive may-analysis over assignments, calls and &mut arguments"],
    not_decided=[],
    level_text="Part 1: bounded model checking (self-composition) of two instances built by new() on the same symbolic input. Part 2: SMT entailment over the MIR data-flow implications of the whole crate: no entropy source reaches a field built by any constructor or a seed passed to any generator; a reached sink is confirmed by a native differential run across instances, threads and processes before it is reported.",
    level_note="Trusted: Kani/CBMC, oracle RNG models, rustc MIR dump, lib/smt_taint.py, z3/cvc5. Concurrency/process clause reduced to absence of entropy flow (stated).",
    technique="Kani self-composition + MIR data-flow entailment decided by z3/cvc5",
)


# --------------------------------------------------------------------------------------- C03
_c03 = [
    H("c03_single_f64_m2", 1800, "thorough", "fresh SuperMinHash<f64>, one item: position p_j holds j + r_j, r_j = j-th uniform draw, integer parts pairwise distinct, all positions written, invariant holds", "m=2"),
    H("c03_single_f64_m3", 1800, "quick", "same", "m=3"),
    H("c03_single_f64_m4", 2400, "thorough", "same", "m=4"),
    H("c03_single_f32_m3", 1800, "quick", "same, f32", "m=3"),
    H("c03_single_f32_m4", 2400, "thorough", "same, f32", "m=4"),
]
SPECS["C03"] = dict(
    level="model_checking", harnesses=_c03,
    functions=["SuperMinHash::{new, sketch}", "rand Uniform<f64|f32>::sample, Uniform<usize>::sample"],
    bounds={"quick": "m=3 (f64, f32), one symbolic item, every generator output", "thorough": "m in {2,3,4}"},
    outside="the two expectation clauses (E[fraction of equal positions] = J, MSE <= J(1-J)/m) are NOT decided: a solver decides forall/exists over generator outputs, not their measure; SuperMinHash2's single-item clause is c04_smh2_first_m3 (all positions carry the item); uniformity of the permutation is reduced to C17's lemmas (the slot draws here are rand's Uniform<usize>(j, m), a bijection from accepted draws to slots by Lemire's method - not re-proved)",
    assumptions=["generator = oracle", "Lemire rejections excluded"],
    not_decided=["expected fraction of equal positions equals J", "MSE at most J(1-J)/m", "the permutation is uniformly distributed (probability statement)"],
    level_text="Single-item clause only: for every generator output, a fresh SuperMinHash sketching one item stores j + r_j on position p_j of a permutation of 0..m (integer parts pairwise distinct, including the case where r + j rounds up), with r_j the j-th uniform draw of the item's stream, so fractional parts of distinct positions come from distinct draws. The consistency half of unbiasedness is C04/C05's join lemma.",
    level_note="Trusted: Kani/CBMC, oracle model. The expectation clauses of C03 are not decided (stated in evidence).",
    technique="Kani/CBMC bounded model checking with an oracle RNG model",
)
