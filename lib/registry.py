"""registry of checks: property id -> spec (harness instances, bounds, what is encoded, assumptions)"""
from pmhv import Harness as H

SPECS = {}
SOURCE_COMMITS = []
NOTES = ("Every verdict is a SAT/SMT verdict over an encoding regenerated from /repo's current working tree. "
         "exit 0 = all harness instances verified (with reachability witnesses satisfied); exit 1 = a counterexample was found "
         "and reproduced natively (VIOLATION line); exit 2 = not decided (timeout, out of memory, harness no longer compiles, "
         "or a counterexample that does not reproduce natively) - never reported as success.")
NOT_APPLICABLE = {
    "C01": "every clause is an expectation/probability over hash randomness (needs a measure, not a forall/exists verdict; the law involves exp); its forall-lemmas are decided under C02/C14/C15",
    "C08": "single clause, an expectation over hash and densification randomness; the structural facts are decided under C04/C09",
    "C10": "single clause, an expectation over hash randomness; the selection mechanism is decided under C11",
}

# --------------------------------------------------------------------------------------- C15
_c15 = []
for ty, ms, quick in (("f64", (1, 2, 3, 4, 5, 6), (1, 2, 3)), ("u16", (2, 3, 4, 5, 7, 8, 9, 12), (4, 5)),
                      ("u64", (5,), ()), ("f32", (3,), ())):
    for m in ms:
        t = "quick" if m in quick else "thorough"
        _c15.append(H("c15_step_%s_m%d" % (ty, m), timeout=900, tier=t,
                      desc="inductive step of MaxValueTracker<%s>::update from an arbitrary Inv-state, m=%d" % (ty, m),
                      bounds="m=%d slots, all values of %s (no NaN), slot index symbolic (case-split)" % (m, ty)))
        _c15.append(H("c15_fresh_%s_m%d" % (ty, m), timeout=300, tier=t,
                      desc="new(m) and reset() from arbitrary content give the all-MAX state satisfying Inv, m=%d" % m,
                      bounds="m=%d, %s" % (m, ty)))
SPECS["C15"] = dict(
    level="model_checking",
    harnesses=_c15,
    functions=["maxvaluetrack::MaxValueTracker::{new, update, get_max_value, get_value, is_update_possible, reset}"],
    bounds={"quick": "V=f64 m in {1,2,3}; V=u16 m in {4,5}; one update from an arbitrary invariant state (covers update sequences of any length by induction)",
            "thorough": "V=f64 m in 1..=6; V=u16 m in {2,3,4,5,7,8,9,12}; V=u64 m=5; V=f32 m=3"},
    outside="slot counts other than those listed; NaN values (callers never pass NaN: `NaN < qmax` is false before any update)",
    assumptions=["representation invariant Inv (inner node = max of its two children) characterises reachable states: holds for new()/reset() and is preserved by update (both checked)",
                 "offered values are not NaN",
                 "log statically disabled (feature max_level_off) in the scratch build"],
    not_decided=[],
    level_text="Bounded model checking (Kani/CBMC) of one inductive step of the real MaxValueTracker code from an arbitrary state satisfying the representation invariant, for every slot, every value and every listed slot count; with the base case (new/reset) this covers update sequences of any length for those slot counts.",
    level_note="Trusted: Kani/CBMC/CaDiCaL, rustc MIR; invariant written in harness/maxvaluetrack.rs; NaN excluded; slot counts bounded as listed in the evidence.",
    technique="Kani/CBMC bounded model checking, inductive step over symbolic invariant state",
)


# --------------------------------------------------------------------------------------- C19
def _c19(prop, spec, tier, seed, args):
    import smt_invhash
    return smt_invhash.check(prop, spec, tier, seed, args)


SPECS["C19"] = dict(
    level="proof", custom=_c19, engine_name="mir-smt", harnesses=[],
    level_text="Unbounded (loop-free code, all 2^32 / 2^64 inputs): the MIR of the four functions of the current tree is translated to bit-vector terms, cut into stages at the assignments to the hash variable, and every inverse stage is shown by SMT to undo its forward stage in both orders; composition gives both identities. Arithmetic overflow asserts of the functions are obligations too.",
    level_note="Trusted: rustc's MIR dump, the translator lib/smt_invhash.py (cross-validated on every run against the compiled functions on ~230 concrete inputs per function), cvc5 1.0 / z3 4.8.12 (answers cross-checked; any (error or disagreement = not decided). A sat answer is replayed through the compiled functions before it is reported.",
    technique="MIR-to-SMT-LIB2 translation, per-stage inverse lemmas decided by cvc5 (bv-as-int and bit-blasting) and z3",
)
