"""registry of checks: property id -> spec (harness instances, bounds, what is encoded, assumptions)"""
from pmhv import Harness as H

SPECS = {}
SOURCE_COMMITS = []
NOTES = ("Every verdict is a SAT/SMT verdict over an encoding regenerated from /repo's current working tree. "
         "exit 0 = all harness instances verified (with reachability witnesses satisfied); exit 1 = a counterexample was found "
         "and reproduced natively (VIOLATION line); exit 2 = not decided (timeout, out of memory, harness no longer compiles, "
         "or a counterexample that does not reproduce natively) - never reported as success.")
NOT_APPLICABLE = {
    "C01": "every clause is an expectation/probability over hash randomness (needs a measure, not a forall/exists verdict; the law involves exp); its forall-lemmas are decided under C02/C14/C15",
    "C08": "single clause, an expectation over hash and densification randomness; the structural facts are decided under C04/C09",
    "C10": "single clause, an expectation over hash randomness; the selection mechanism is decided under C11",
}

# --------------------------------------------------------------------------------------- C15
_c15 = []
for ty, ms, quick in (("f64", (1, 2, 3, 4, 5, 6), (1, 2, 3)), ("u16", (2, 3, 4, 5, 7, 8, 9, 12), (4, 5)),
                      ("u64", (5,), ()), ("f32", (3,), ())):
    for m in ms:
        t = "quick" if m in quick else "thorough"
        _c15.append(H("c15_step_%s_m%d" % (ty, m), timeout=900, tier=t,
                      desc="inductive step of MaxValueTracker<%s>::update from an arbitrary Inv-state, m=%d" % (ty, m),
                      bounds="m=%d slots, all values of %s (no NaN), slot index symbolic (case-split)" % (m, ty)))
        _c15.append(H("c15_fresh_%s_m%d" % (ty, m), timeout=300, tier=t,
                      desc="new(m) and reset() from arbitrary content give the all-MAX state satisfying Inv, m=%d" % m,
                      bounds="m=%d, %s" % (m, ty)))
SPECS["C15"] = dict(
    level="model_checking",
    harnesses=_c15,
    functions=["maxvaluetrack::MaxValueTracker::{new, update, get_max_value, get_value, is_update_possible, reset}"],
    bounds={"quick": "V=f64 m in {1,2,3}; V=u16 m in {4,5}; one update from an arbitrary invariant state (covers update sequences of any length by induction)",
            "thorough": "V=f64 m in 1..=6; V=u16 m in {2,3,4,5,7,8,9,12}; V=u64 m=5; V=f32 m=3"},
    outside="slot counts other than those listed; NaN values (callers never pass NaN: `NaN < qmax` is false before any update)",
    assumptions=["representation invariant Inv (inner node = max of its two children) characterises reachable states: holds for new()/reset() and is preserved by update (both checked)",
                 "offered values are not NaN",
                 "log statically disabled (feature max_level_off) in the scratch build"],
    not_decided=[],
    level_text="Bounded model checking (Kani/CBMC) of one inductive step of the real MaxValueTracker code from an arbitrary state satisfying the representation invariant, for every slot, every value and every listed slot count; with the base case (new/reset) this covers update sequences of any length for those slot counts.",
    level_note="Trusted: Kani/CBMC/CaDiCaL, rustc MIR; invariant written in harness/maxvaluetrack.rs; NaN excluded; slot counts bounded as listed in the evidence.",
    technique="Kani/CBMC bounded model checking, inductive step over symbolic invariant state",
)


# --------------------------------------------------------------------------------------- C19
def _c19(prop, spec, tier, seed, args):
    import smt_invhash
    return smt_invhash.check(prop, spec, tier, seed, args)


SPECS["C19"] = dict(
    level="proof", custom=_c19, engine_name="mir-smt", harnesses=[],
    level_text="Unbounded (loop-free code, all 2^32 / 2^64 inputs): the MIR of the four functions of the current tree is translated to bit-vector terms, cut into stages at the assignments to the hash variable, and every inverse stage is shown by SMT to undo its forward stage in both orders; composition gives both identities. Arithmetic overflow asserts of the functions are obligations too.",
    level_note="Trusted: rustc's MIR dump, the translator lib/smt_invhash.py (cross-validated on every run against the compiled functions on ~230 concrete inputs per function), cvc5 1.0 / z3 4.8.12 (answers cross-checked; any (error or disagreement = not decided). A sat answer is replayed through the compiled functions before it is reported.",
    technique="MIR-to-SMT-LIB2 translation, per-stage inverse lemmas decided by cvc5 (bv-as-int and bit-blasting) and z3",
)


# --------------------------------------------------------------------------------------- C17
_c17 = []
for m in range(1, 8):
    t = "quick" if m in (1, 3, 4) else "thorough"
    _c17.append(H("c17_step_m%d" % m, timeout=900, tier=t, desc="one FYshuffle::next from any reachable state (v a permutation, lastidx<=m), any generator output", bounds="m=%d" % m))
    _c17.append(H("c17_reset_m%d" % m, timeout=600, tier=t, desc="reset() from arbitrary content == new(m) up to the two fresh representations, which draw identically", bounds="m=%d" % m))
    _c17.append(H("c17_cells_n%d" % m, timeout=900, tier="quick" if m in (3, 4) else "thorough", desc="slot map u -> floor(u*n): float slot == exact slot except within 2 grid points (2^-52) of a cell boundary; never n", bounds="n=%d, all 2^52 values of u" % m))
for m, t in ((2, "quick"), (3, "quick"), (4, "thorough")):
    _c17.append(H("c17_block_m%d" % m, timeout=1800, tier=t, desc="full block of m draws from the fresh state, two generators: outputs pairwise distinct, equal to v; choice vector -> permutation injective", bounds="m=%d" % m))
SPECS["C17"] = dict(
    level="model_checking", harnesses=_c17,
    functions=["fyshuffle::FYshuffle::{new, next, reset, get_values}", "rand::distr::Uniform<f64>::sample (real code)"],
    bounds={"quick": "step/reset m in {1,3,4}; cell lemma n in {3,4}; block injectivity m in {2,3}",
            "thorough": "step/reset/cells m in 1..=7; block injectivity m in {2,3,4}"},
    outside="m > 7; the uniformity of the generator's u64 outputs is assumed (a measure, not decidable by a solver); uniformity of permutations is reduced to the two forall-lemmas (equal cells, injective choice map)",
    assumptions=["generator = memoised oracle: any u64 per draw, a function of (seed, draw number) (models/rand_xoshiro)",
                 "reachable states: v is a permutation of 0..m and lastidx <= m (holds for new/reset, preserved by next: checked)"],
    not_decided=["'every one of the m! orders has equal probability' as a probability statement: only its forall-reduction is decided"],
    level_text="Bounded model checking of FYshuffle::next/reset over every reachable state and every generator output for the listed sizes: a block of m draws after a reset returns each value once, earlier positions are never touched, reset forgets all history, and the slot map / choice-vector map lemmas that reduce uniformity to the uniformity of the generator.",
    level_note="Trusted: Kani/CBMC, the Xoshiro oracle model (models/rand_xoshiro). Sizes bounded as listed. Probability statement reduced to forall-lemmas; generator uniformity assumed.",
    technique="Kani/CBMC bounded model checking, inductive step over symbolic permutation state with an oracle RNG model",
)
