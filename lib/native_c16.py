"""native confirmation of a C16 counterexample of the `new(lambda)` harnesses: they replace exp / ln / exp_m1 by
tables, so Kani's concrete playback is not faithful for them and a CBMC counterexample is only a candidate.  This
search drives the REAL sampler (real constructor, real libm, real rand Uniform) with scripted generator outputs - the
solver's values, both ends of the range and the neighbourhood of the first acceptance threshold - for the lambdas of
the harnesses and a grid; only a sample outside [0,1) seen natively is reported."""
import os, shutil, struct, subprocess, tempfile
import pmhv
from native_c07 import playback_values


def confirm(test_src, rdir):
    d = tempfile.mkdtemp(prefix="pmhv-c16n-", dir=pmhv.SCRATCH_ROOT)
    try:
        shutil.copytree(os.path.join(pmhv.VERIF, "native", "c16"), os.path.join(d, "p"))
        ct = os.path.join(d, "p", "Cargo.toml")
        with open(ct) as f:
            t = f.read().replace("REPO_PATH", pmhv.REPO)
        with open(ct, "w") as f:
            f.write(t)
        shutil.copy(os.path.join(pmhv.REPO, "Cargo.lock"), os.path.join(d, "p", "Cargo.lock"))
        env = dict(pmhv.ENV)
        env["CARGO_TARGET_DIR"] = os.path.join(d, "tgt")
        p = subprocess.run(["cargo", "build", "--release", "--offline"], cwd=os.path.join(d, "p"), env=env,
                           stdout=subprocess.PIPE, stderr=subprocess.STDOUT, text=True)
        if p.returncode != 0:
            return None, "native helper did not build: " + p.stdout[-400:]
        vals = playback_values(test_src)
        inp = "".join("%d\n" % v for v in vals)
        p = subprocess.run([os.path.join(d, "tgt", "release", "c16replay")], input=inp, stdout=subprocess.PIPE,
                           stderr=subprocess.DEVNULL, text=True, timeout=900)
        lines = p.stdout.splitlines()
        bad = [l for l in lines if l.startswith("BAD")]
        summ = [l for l in lines if l.startswith("CHECKED")]
        if not summ:
            return None, "native helper did not finish (rc=%s)" % p.returncode
        if not bad:
            return False, "no scripted generator output makes the real sampler leave [0,1) (%s)" % summ[0]
        _, lb, d1, d2, d3, x = bad[0].split()[:6]
        lam = struct.unpack("<d", struct.pack("<Q", int(lb)))[0]
        with open(os.path.join(rdir, "native_witness.txt"), "w") as f:
            f.write("real ExpRestricted01::new(%r).sample with generator outputs [%s, %s, %s] returns %s\n" % (lam, d1, d2, d3, x))
            f.write(summ[0] + "\nfirst lines:\n" + "\n".join(bad[:20]) + "\n")
        return True, "real sampler: new(%r).sample with generator outputs [%s, %s, %s] returns %s (%s)" % (lam, d1, d2, d3, x, summ[0])
    finally:
        shutil.rmtree(d, ignore_errors=True)
