"""native confirmation of a C07 counterexample: the Kani harness stubs powf by an enclosure, so a CBMC
counterexample is only a candidate.  This search calls the REAL get_jaccard_bounds (real libm) around the
candidate and on a boundary grid; only a natively failing (b, jac) is reported."""
import os, re, shutil, struct, subprocess, tempfile
import pmhv


def f2b(x):
    return struct.unpack("<Q", struct.pack("<d", x))[0]


def b2f(u):
    return struct.unpack("<d", struct.pack("<Q", u))[0]


def playback_values(test_src):
    vals = []
    for m in re.finditer(r"vec!\[([0-9, ]+)\]", test_src or ""):
        bs = [int(x) for x in m.group(1).split(",") if x.strip()]
        if len(bs) == 8:
            vals.append(int.from_bytes(bytes(bs), "little"))
    return vals


def candidates(vals):
    bs = set()
    js = set()
    if len(vals) >= 2:
        b0, j0 = vals[0], vals[1]
        for d in range(-64, 65):
            bs.add(b0 + d)
        bs.add(b0)
        for d in range(-2048, 2049):
            js.add(j0 + d)
    for b in (1.00001, 1.0001, 1.001, 1.01, 1.1, 1.5, 2.0):
        bs.add(f2b(b))
    for k in range(0, 1025):
        js.add(f2b(k / 1024.0))
    for i in range(1, 54):
        js.add(f2b(1.0 - 2.0 ** -i))
        js.add(f2b(2.0 ** -i))
    one = f2b(1.0)
    for d in range(0, 4096):
        js.add(one - d)
    out = []
    for b in sorted(bs):
        fb = b2f(b)
        if not (1.0 < fb <= 2.0):
            continue
        for j in sorted(js):
            fj = b2f(j)
            if 0.0 <= fj <= 1.0:
                out.append((b, j))
    return out


def confirm(test_src, rdir):
    d = tempfile.mkdtemp(prefix="pmhv-c07n-", dir=pmhv.SCRATCH_ROOT)
    try:
        shutil.copytree(os.path.join(pmhv.VERIF, "native", "c07"), os.path.join(d, "p"))
        ct = os.path.join(d, "p", "Cargo.toml")
        with open(ct) as f:
            t = f.read().replace("REPO_PATH", pmhv.REPO)
        with open(ct, "w") as f:
            f.write(t)
        shutil.copy(os.path.join(pmhv.REPO, "Cargo.lock"), os.path.join(d, "p", "Cargo.lock"))
        env = dict(pmhv.ENV)
        env["CARGO_TARGET_DIR"] = os.path.join(d, "tgt")
        p = subprocess.run(["cargo", "build", "--release", "--offline"], cwd=os.path.join(d, "p"), env=env, stdout=subprocess.PIPE, stderr=subprocess.STDOUT, text=True)
        if p.returncode != 0:
            return None, "native helper did not build: " + p.stdout[-400:]
        cands = candidates(playback_values(test_src))
        inp = "".join("%d %d\n" % c for c in cands)
        p = subprocess.run([os.path.join(d, "tgt", "release", "c07replay")], input=inp, stdout=subprocess.PIPE, stderr=subprocess.DEVNULL, text=True)
        bad = [l for l in p.stdout.splitlines() if l.startswith(("PANIC", "BAD"))]
        if not bad:
            return False, "no (b, jac) among %d native candidates around the solver's counterexample makes the real function fail" % len(cands)
        kind, b, j = bad[0].split()[:3]
        fb, fj = b2f(int(b)), b2f(int(j))
        with open(os.path.join(rdir, "native_witness.txt"), "w") as f:
            f.write("get_jaccard_bounds with the real libm: %s for b = %r (bits %s), jac = %r (bits %s)\n" % (kind, fb, b, fj, j))
            f.write("%d of %d candidates fail; first 20:\n" % (len(bad), len(cands)))
            f.write("\n".join(bad[:20]) + "\n")
            f.write("\nreplay: SetSketchParams::new(%r, 4096, 20., 65534).get_jaccard_bounds(%r)\n" % (fb, fj))
        return True, "real libm: %s at b=%r jac=%r (%d of %d native candidates fail)" % (kind, fb, fj, len(bad), len(cands))
    finally:
        shutil.rmtree(d, ignore_errors=True)
