"""C12 (part 2) and C20 (error path) on Engine T (lib/smt_taint.py)"""
import json, os, re, shutil, subprocess, sys, tempfile, time
import pmhv
import smt_taint as T

FILE_KIND = {
    "superminhasher.rs": ["smh_f64", "smh_f32"], "superminhasher2.rs": ["smh2", "smh2_u32"], "setsketcher.rs": ["setsketch"],
    "densminhash.rs": ["optdens", "revdens"], "probminhash2.rs": ["pmh2"], "probminhash3.rs": ["pmh3", "pmh3a"],
    "probminhash3sha.rs": ["pmh3asha"], "probordminhash2.rs": ["probord"], "fyshuffle.rs": ["smh2", "setsketch", "pmh2", "probord"],
    "maxvaluetrack.rs": ["pmh2", "pmh3", "pmh3a", "probord"], "exp01.rs": ["pmh3", "pmh3a"],
}
ALL_KINDS = ["smh_f64", "smh_f32", "smh2", "smh2_u32", "setsketch", "optdens", "revdens", "pmh2", "pmh3", "pmh3a", "pmh3asha", "probord"]


def build_native(name, work):
    d = os.path.join(work, name)
    shutil.copytree(os.path.join(pmhv.VERIF, "native", name), d)
    ct = os.path.join(d, "Cargo.toml")
    with open(ct) as f:
        t = f.read().replace("REPO_PATH", pmhv.REPO)
    with open(ct, "w") as f:
        f.write(t)
    shutil.copy(os.path.join(pmhv.REPO, "Cargo.lock"), os.path.join(d, "Cargo.lock"))
    env = dict(pmhv.ENV)
    env["CARGO_TARGET_DIR"] = os.path.join(pmhv.CACHE_DIR, "native-target")
    p = subprocess.run(["cargo", "build", "--release", "--offline"], cwd=d, env=env, stdout=subprocess.PIPE, stderr=subprocess.STDOUT, text=True)
    if p.returncode != 0:
        return None, p.stdout[-800:]
    return os.path.join(pmhv.CACHE_DIR, "native-target", "release", name + "replay"), ""


def c12_native(kinds, work):
    """two instances in a thread, two in concurrent threads, two processes: all outputs must be equal"""
    exe, err = build_native("c12", work)
    if not exe:
        return None, "native helper did not build: " + err
    diffs = []
    for k in kinds:
        outs = []
        for extra in ([], [], ["with-history"]):
            p = subprocess.run([exe, k] + extra, stdout=subprocess.PIPE, stderr=subprocess.STDOUT, text=True, timeout=600)
            outs += p.stdout.strip().splitlines()
        if len(set(outs)) != 1:
            diffs.append("%s: %d distinct outputs among %d runs (3 processes, one of them after using other sketchers with other parameters, x (2 sequential + 2 concurrent instances))" % (k, len(set(outs)), len(outs)))
    return (True, "; ".join(diffs)) if diffs else (False, "all instances/threads/processes agree for " + ",".join(kinds))


SKETCH_METHODS = {"sketch", "sketch_slice", "hash_item", "hash_set", "hash_wset", "hash_weigthed_idxmap", "hash_weigthed_hashmap", "densify",
                  "end_sketch", "merge", "reinit", "reset", "update", "next", "update_with_maxtracker", "create_signature", "sample",
                  "get_hsketch", "get_hsketch_u64", "get_hsketch_u32", "get_signature", "get_cardinal_stats", "get_jaccard_bounds",
                  "get_jaccard_index_estimate", "compute_probminhash_jaccard", "compute_superminhash_jaccard", "get_sig"}
# documented as intentionally drawing a new random seed
EXEMPT = {"change_rng_seed", "change_wyhash_seed"}
# process-wide mutable / lazily initialised state: its value depends on the history of the process, not on the
# arguments (a second source class next to entropy)
STATIC_PATTERNS = [r"OnceLock", r"LazyLock", r"OnceCell", r"as Deref>::deref\(const ", r"AtomicU\d+|AtomicUsize|AtomicBool", r"\bMutex\b|\bRwLock\b", r"thread_local|LocalKey"]


# names of the crate's statics that are lazily initialised or interior-mutable (filled per run from the MIR dump)
MUTABLE_STATICS = set()


def find_mutable_statics(mir):
    MUTABLE_STATICS.clear()
    for m in re.finditer(r"^static (mut )?([\w:<> ]+?): ([^=]+) = \{", mir, re.M):
        name = m.group(2).split("::")[-1].strip()
        ty = m.group(3).strip()
        if name in ("LOG", "LAZY") and "probminhash" not in ty:
            pass
        if m.group(1) or re.search(r"Lazy|OnceLock|OnceCell|Atomic|Mutex|RwLock|Cell<|RefCell", ty) or ty.split("::")[-1] == name:
            if name != "LOG":
                MUTABLE_STATICS.add(name)
    return MUTABLE_STATICS


def is_entropy_call(callee, args, f):
    if f.file == "" or f.file.endswith("lib.rs"):
        # the crate's own logger initialisation (lib.rs LOG) is not on any sketch path
        if "init_log" in f.name or "LOG" in f.name:
            return False
    txt = callee.strip()
    if any(re.search(p, txt) for p in T.ENTROPY_PATTERNS):
        return True
    if re.match(r"^(rand::)?(rngs::)?(rng|thread_rng|random)(::<.*>)?$", txt):
        return True
    if any(re.search(r"\b%s\b" % re.escape(n), txt) for n in MUTABLE_STATICS):
        return True
    return any(re.search(p, callee + "(" + args) for p in STATIC_PATTERNS)


def check_c12_part2(work, fns, tier):
    clauses, facts = T.analyse(fns, is_entropy_call, "entropy")
    sinks = []   # (var, description, file)
    for fi, f in enumerate(fns):
        if not f.file:
            continue
        # (a) constructors: operands of the aggregate returned
        if f.short in ("new", "default") or f.short.startswith("new::") is False and f.short == "from":
            for m in re.finditer(r"^\s*_0 = (\w[\w:<>, ]*?) \{ (.*) \};$", f.body, re.M):
                for fm in re.finditer(r"(\w+): (?:move|copy) (_\d+)", m.group(2)):
                    fld, loc = fm.group(1), fm.group(2)
                    if T.RNG_TYPES.search(f.types.get(loc, "")):
                        continue
                    sinks.append(("f%d%s" % (fi, loc), "field `%s` of the value built by %s" % (fld, f.name), f.file))
        # (b) every seeding of a generator
        for m in re.finditer(r"^\s*(_\d+) = (.*?(?:seed_from_u64|from_seed|with_seed)[^(]*)\((.*)\) -> \[return", f.body, re.M):
            for a in T.base_locals(m.group(3)):
                sinks.append(("f%d%s" % (fi, a), "seed argument of %s in %s" % (m.group(2).split("::")[-1], f.name), f.file))
        # (c) the state a sketching method leaves behind and the value it returns
        if f.short in SKETCH_METHODS and f.short not in EXEMPT:
            if f.params and f.params[0][1].startswith("&mut"):
                sinks.append(("f%d%s" % (fi, f.params[0][0]), "the sketcher state written by %s" % f.name, f.file))
            if f.types.get("_0", "()") not in ("()", "!"):
                sinks.append(("f%d_0" % fi, "the value returned by %s" % f.name, f.file))
    results = []
    findings = []
    for i, (var, desc, file) in enumerate(sinks):
        verdict, answers = T.entailed(clauses, facts, var, work, "c12_%d" % i)
        r = {"obligation": "no entropy source reaches " + desc, "verdict": {"entailed": "REACHED", "not-entailed": "holds", "inconclusive": "inconclusive"}[verdict], "solvers": answers}
        if verdict == "entailed":
            ex = T.explain(clauses, facts, var)
            r["flow"] = ex[1] if ex else None
            findings.append((desc, file, r))
        results.append(r)
    return results, findings, len(clauses), len(facts)


def run_c12(prop, spec, tier, seed, args):
    """part 1 (Kani self-composition harnesses) + part 2 (entropy reachability on MIR)"""
    t0 = time.time()
    run = pmhv.run_property(prop, spec, tier, seed, only=getattr(args, "only", None), keep=getattr(args, "keep", False))
    work = tempfile.mkdtemp(prefix="pmhv-c12-", dir=pmhv.SCRATCH_ROOT)
    vlines, known, undec = [], [], []
    try:
        mir_txt = T.dump_crate_mir(work)
        find_mutable_statics(mir_txt)
        fns = T.parse_functions(mir_txt)
        results, findings, ncl, nfacts = check_c12_part2(work, fns, tier)
        inconcl = [r for r in results if r["verdict"] == "inconclusive"]
        kf = pmhv.load_known().get("findings", [])
        if findings:
            kinds = []
            for desc, file, r in findings:
                for k in FILE_KIND.get(os.path.basename(file), ALL_KINDS):
                    if k not in kinds:
                        kinds.append(k)
            reproduced, note = c12_native(kinds, work)
            for desc, file, r in findings:
                k = [x for x in kf if x["property"] == prop and re.search(x["harness_re"], desc)]
                if k:
                    known.append("KNOWN-FINDING: property=%s %s" % (prop, k[0]["what"]))
                    r["known_finding"] = k[0]["id"]
                    continue
                if reproduced:
                    rd = os.path.join(pmhv.REPLAY_DIR, prop)
                    os.makedirs(rd, exist_ok=True)
                    rp = os.path.join(rd, "entropy_%s.txt" % re.sub(r"\W+", "_", desc)[:80])
                    with open(rp, "w") as fh:
                        fh.write("%s\nflow from: %s\nnative differential run (native/c12): %s\n" % (desc, r.get("flow"), note))
                    vlines.append("VIOLATION property=%s replay=%s" % (prop, rp))
                    vlines.append("  an entropy source reaches %s; native: %s" % (desc, note[:300]))
                else:
                    undec.append("entropy reaches %s on the MIR data-flow graph but the native differential run agrees (%s)" % (desc, note))
        for r in inconcl:
            undec.append("solver inconclusive for: " + r["obligation"])
        extra = {
            "part2_engine": "MIR data-flow entailment (lib/smt_taint.py), z3 4.8.12 + cvc5 1.0, QF_UF",
            "part2_functions": len(fns), "part2_implications": ncl, "part2_entropy_sources_in_crate": nfacts,
            "part2_sinks": len(results), "part2_sinks_clean": sum(1 for r in results if r["verdict"] == "holds"),
            "part2_samples": results[:6] + [r for d, f, r in findings][:4],
        }
        if getattr(args, "only", None):
            ev = None
        else:
            ev = pmhv.write_evidence(prop, spec, tier, seed, run, extra_cov=extra)
    finally:
        shutil.rmtree(work, ignore_errors=True)
    if ev is not None:
        ev["coverage"]["evaluations"] += len(results)
        ev["coverage"]["distinct_nontrivial"] += sum(1 for r in results if r["verdict"] != "inconclusive")
        ev["violations"] = len(run["violations"]) + len([l for l in vlines if l.startswith("VIOLATION")])
        ev["wall_s"] = round(time.time() - t0, 1)
        with open(os.path.join(pmhv.EVIDENCE_DIR, prop + ".json"), "w") as fh:
            json.dump(ev, fh, indent=1)
    for l in known + vlines:
        print(l)
    for u in undec:
        print("UNDECIDED property=%s %s" % (prop, u))
    rc = pmhv.finish(prop, run)
    print("%s part 2: %d sinks, %d clean, %d reached" % (prop, len(results), extra["part2_sinks_clean"], len(findings)))
    if vlines or rc == 1:
        return 1
    if undec or rc == 2:
        return 2
    return 0


# ------------------------------------------------------------------------------------------ C20
PARSE_SRC = re.compile(r"(^|[^A-Za-z0-9_])(from_reader|from_str|from_slice|from_value)::<[^()]*SetSketchParams")
TRUNC_SRC = re.compile(r"OpenOptions::truncate|File::create\b|File::create_new\b|File::set_len|fs::write\b|fs::rename\b|(^|[^A-Za-z0-9_])rename\b")
WRITE_SINK = re.compile(r"(^|[^A-Za-z0-9_])(to_writer|to_writer_pretty|write_all|write_fmt)\b|Write>?::write\b")
VAL_SINK = re.compile(r"(^|[^A-Za-z0-9_])serialize_(field|element|entry|value|key|f64|f32|u64|u32|u16|u8|i64|i32|newtype_struct|newtype_variant|some)\b")
MIR_ARITH = re.compile(r"^\s*(_\d+) = (?:(Mul|Div|Add|Sub|Rem|AddWithOverflow|SubWithOverflow|MulWithOverflow|Shl|Shr|BitAnd|BitOr|BitXor|Neg)\(|.* as [a-z0-9]+ \((FloatToFloat|FloatToInt|IntToFloat|IntToInt)\))", re.M)
UNWRAPS = re.compile(r"Result::<[^(]*>::(unwrap|expect|unwrap_or|unwrap_or_default|unwrap_or_else|unwrap_unchecked|expect_err)\b|Option::<[^(]*>::(unwrap|expect)\b")


def run_c20(prop, spec, tier, seed, args):
    t0 = time.time()
    work = tempfile.mkdtemp(prefix="pmhv-c20-", dir=pmhv.SCRATCH_ROOT)
    try:
        fns = T.parse_functions(T.dump_crate_mir(work))
        target = [f for f in fns if f.short == "reload_json"]
        if not target:
            print("UNDECIDED property=%s reload_json not found in the MIR of the current tree" % prop)
            return 2
        clauses, facts = T.analyse(fns, lambda callee, a, f: bool(PARSE_SRC.search(callee)) and f.short == "reload_json", "parse-result")
        results, findings = [], []
        for fi, f in enumerate(fns):
            if f.short != "reload_json":
                continue
            n = 0
            for m in re.finditer(r"^\s*(_\d+) = (.*?)\((.*)\) -> \[return", f.body, re.M):
                if not UNWRAPS.search(m.group(2)):
                    continue
                for a in T.base_locals(m.group(3)):
                    verdict, answers = T.entailed(clauses, facts, "f%d%s" % (fi, a), work, "c20_%d" % n)
                    n += 1
                    desc = "the result of parsing the file never flows into `%s` in reload_json" % m.group(2).split("::")[-1]
                    r = {"obligation": desc, "verdict": {"entailed": "REACHED", "not-entailed": "holds", "inconclusive": "inconclusive"}[verdict], "solvers": answers}
                    results.append(r)
                    if verdict == "entailed":
                        findings.append(r)
            # the parse call must exist (otherwise the obligation list is vacuous)
            has_parse = bool(PARSE_SRC.search(f.body))
            results.append({"obligation": "reload_json parses the file with serde_json (vacuity guard)", "verdict": "holds" if has_parse else "inconclusive", "solvers": []})
        # dump side: the writer that receives the JSON text must come from a truncating open (otherwise a dump over
        # an older, longer file leaves a tail and the reload fails although no crash happened)
        tclauses, tfacts = T.analyse(fns, lambda callee, a, f: f.short == "dump_json" and bool(TRUNC_SRC.search(callee)) and not re.search(r"truncate\(.*const false", callee + "(" + a), "truncating-open")
        stale = []
        for fi, f in enumerate(fns):
            if f.short != "dump_json":
                continue
            k = 0
            for m in re.finditer(r"^\s*(_\d+) = (.*?)\((.*)\) -> \[return", f.body, re.M):
                if not WRITE_SINK.search(m.group(2)):
                    continue
                a = T.base_locals(m.group(3))[:1]
                for a0 in a:
                    verdict, answers = T.entailed(tclauses, tfacts, "f%d%s" % (fi, a0), work, "c20t_%d" % k)
                    k += 1
                    r = {"obligation": "the writer passed to `%s` in dump_json derives from a truncating open (OpenOptions::truncate(true) / File::create / set_len / rename)" % re.sub(r"::<.*$", "", m.group(2)).split("::")[-1],
                         "verdict": {"entailed": "holds", "not-entailed": "NOT-TRUNCATED", "inconclusive": "inconclusive"}[verdict], "solvers": answers}
                    results.append(r)
                    if verdict == "not-entailed":
                        stale.append(r)
            if k == 0:
                results.append({"obligation": "dump_json writes through a serde_json/io writer call (vacuity guard of the truncation obligation)", "verdict": "inconclusive", "solvers": []})
        # value side: what the crate hands to a serde serializer must be the stored value itself, not something computed
        # from it (rounded, narrowed, rescaled): on the MIR data-flow graph of every crate function that calls a serde
        # `serialize_*` primitive, no result of an arithmetic operation, numeric cast or call may reach the value argument
        derived = []
        ser_fns = set(fi for fi, f in enumerate(fns) if any(VAL_SINK.search(m.group(2)) for m in re.finditer(r"^\s*(_\d+) = (.*?)\((.*)\) -> \[return", f.body, re.M)))
        ser_names = set(fns[fi].name for fi in ser_fns)
        vclauses, vfacts = T.analyse(fns, lambda callee, a, f: f.name in ser_names and not VAL_SINK.search(callee) and not re.search(r"serialize_struct|serialize_seq|serialize_map|serialize_tuple|SerializeStruct>?::end|::end\b|Formatter|fmt::", callee), "computed-value")[:2]
        vfacts = list(vfacts)
        for fi in ser_fns:
            for m in MIR_ARITH.finditer(fns[fi].body):
                vfacts.append(("f%d%s" % (fi, m.group(1)), "%s: %s" % (fns[fi].name, m.group(0).strip()[:160])))
        kv = 0
        for fi in sorted(ser_fns):
            f = fns[fi]
            for m in re.finditer(r"^\s*(_\d+) = (.*?)\((.*)\) -> \[return", f.body, re.M):
                if not VAL_SINK.search(m.group(2)):
                    continue
                al = T.base_locals(m.group(3))
                if not al:
                    continue
                verdict, answers = T.entailed(vclauses, vfacts, "f%d%s" % (fi, al[-1]), work, "c20v_%d" % kv)
                kv += 1
                r = {"obligation": "the value passed to `%s` in %s is not computed (no arithmetic, cast or call result reaches it): the stored field itself is dumped" % (re.sub(r"::<.*$", "", m.group(2)).split("::")[-1], f.name[:80]),
                     "verdict": {"entailed": "COMPUTED", "not-entailed": "holds", "inconclusive": "inconclusive"}[verdict], "solvers": answers}
                results.append(r)
                if verdict == "entailed":
                    derived.append(r)
        if kv == 0:
            results.append({"obligation": "the crate's Serialize code calls a serde serialize_* primitive (vacuity guard of the value obligation)", "verdict": "inconclusive", "solvers": []})
        vlines, undec = [], []
        native_note = ""
        guard_bad = any(r["verdict"] == "inconclusive" for r in results)
        if findings or stale or derived or tier == "thorough" or guard_bad:
            exe, err = build_native("c20", work)
            if exe:
                td = tempfile.mkdtemp(prefix="pmhv-c20d-", dir=pmhv.SCRATCH_ROOT)
                p = subprocess.run([exe, td], stdout=subprocess.PIPE, stderr=subprocess.STDOUT, text=True, timeout=600)
                shutil.rmtree(td, ignore_errors=True)
                bad = [l for l in p.stdout.splitlines() if l.startswith(("PANIC", "OK-DIFFERENT", "STALE"))]
                native_note = "native/c20: %d of the prefixes (and the missing file) are not reported as Err, or a dump over an older longer file does not reload: %s" % (len(bad), "; ".join(bad[:4]))
                if bad:
                    rd = os.path.join(pmhv.REPLAY_DIR, prop)
                    os.makedirs(rd, exist_ok=True)
                    rp = os.path.join(rd, "torn_file.txt")
                    with open(rp, "w") as fh:
                        fh.write(p.stdout)
                    vlines.append("VIOLATION property=%s replay=%s" % (prop, rp))
                    vlines.append("  " + native_note[:300])
                elif stale:
                    undec.append("no truncating open reaches the writer of dump_json on the MIR data-flow graph, but a dump over an older, longer file reloads natively")
                elif derived:
                    undec.append("a computed value reaches a serde serializer call on the MIR data-flow graph, but the dumped parameters reload to the same values natively (two parameter tuples)")
                elif findings:
                    undec.append("an unwrap-family call consumes the parse result on the MIR data-flow graph, but every prefix of the file is reported as Err natively")
            else:
                undec.append("native helper did not build: " + err)
        for r in results:
            if r["verdict"] == "inconclusive" and not vlines:
                undec.append("inconclusive: " + r["obligation"] + " (the native reload of every prefix found nothing)")
        ev = {
            "property_id": prop, "tier": tier, "seed": seed, "level": "other",
            "coverage": {
                "explanation": "Error-path clause and the truncating open of the dump. The MIR of the current tree is turned into data-flow implications (lib/smt_taint.py) and z3/cvc5 decide, per unwrap-family call in reload_json, whether the Result of the serde_json parse call is entailed to reach it (a torn file makes that Result an Err, so reaching an unwrap = abort, reaching unwrap_or* = different parameters). "
                               "On the dump side the solvers decide whether a truncating open (OpenOptions::truncate(true), File::create, set_len, rename) is entailed to reach the writer that receives the JSON text. A reached unwrap / a missing truncation is confirmed natively (native/c20: reload of every prefix of a dumped file; dump over an older, longer file, then reload) before it is reported. On the value side the solvers decide, for every serde serialize_* call in the crate's own (derived or hand-written) Serialize code, whether a computed value (arithmetic, numeric cast, call result) is entailed to reach the value argument - the stored field itself must be dumped; a computed value is confirmed natively (dump, reload, compare) before it is reported. NOT decided: exactness of ryu printing / serde_json float parsing themselves (symbolic f64 text conversion is out of reach of both engines).",
                "evaluations": len(results), "distinct_nontrivial": max(2, len(results)) if len(results) >= 2 else len(results),
                "samples": results, "obligations": len(results), "discharged": sum(1 for r in results if r["verdict"] == "holds"),
                "native_confirmation": native_note,
                "repo_head": pmhv.repo_head(), "repo_fingerprint": pmhv.repo_fingerprint(),
            },
            "assumptions": ["serde_json returns Err on any strict prefix of one JSON object (its contract; confirmed natively in the thorough tier for one parameter tuple, all prefixes)",
                            "flow-insensitive may-analysis: sees flows through assignments, calls and &mut arguments only"],
            "wall_s": round(time.time() - t0, 1), "violations": len([l for l in vlines if l.startswith("VIOLATION")]),
        }
        os.makedirs(pmhv.EVIDENCE_DIR, exist_ok=True)
        with open(os.path.join(pmhv.EVIDENCE_DIR, prop + ".json"), "w") as fh:
            json.dump(ev, fh, indent=1)
        for l in vlines:
            print(l)
        for u in undec:
            print("UNDECIDED property=%s %s" % (prop, u))
        print("%s: %d obligations, %d hold, %d reached, %.0f s %s" % (prop, len(results), ev["coverage"]["discharged"], len(findings), time.time() - t0, native_note[:200]))
        if vlines:
            return 1
        if undec:
            return 2
        return 0
    finally:
        shutil.rmtree(work, ignore_errors=True)



def c04_native_confirm(test_src, rdir):
    """confirmation for C04 harnesses whose counterexamples cannot be replayed by Kani playback (libm stubs):
    randomized differential search on the real SetSketcher (orders, duplicates) with the real libm"""
    work = tempfile.mkdtemp(prefix="pmhv-c04n-", dir=pmhv.SCRATCH_ROOT)
    try:
        exe, err = build_native("c04", work)
        if not exe:
            return None, "native helper did not build: " + err
        seed = int(os.environ.get("VERIF_SEED", "0") or 0)
        for sd in (seed, seed + 1, seed + 2):
            p = subprocess.run([exe, str(sd + 1)], stdout=subprocess.PIPE, stderr=subprocess.STDOUT, text=True, timeout=120)
            if "MISMATCH" in p.stdout:
                with open(os.path.join(rdir, "native_witness.txt"), "w") as fh:
                    fh.write(p.stdout)
                return True, "native/c04: " + p.stdout.strip().splitlines()[0][:300]
        return False, "native/c04: no set-semantics mismatch found on the real SetSketcher (%s)" % p.stdout.strip()[-80:]
    finally:
        shutil.rmtree(work, ignore_errors=True)
