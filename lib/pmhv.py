#!/usr/bin/env python3
"""
Runner for the solver-based checks of jean-pierreBoth/probminhash (see /verif/DESIGN.md).

Engine K: Kani/CBMC over the real code of /repo's current working tree, compiled in a
          scratch copy into which the harness modules of /verif/harness are mounted
          as child modules (cfg(kani) only) and whose Cargo.toml patches the RNG crates
          to the environment models of /verif/models.
Engine S: lives in lib/smt_invhash.py (MIR -> SMT-LIB2).

Nothing here samples: every verdict reported is a verdict of CBMC's SAT back end
(or of cvc5/z3 for engine S) over the formula generated from the current sources.
"""
import hashlib
import json
import os
import re
import shutil
import signal
import subprocess
import sys
import tempfile
import threading
import time
from concurrent.futures import ThreadPoolExecutor

VERIF = os.path.dirname(os.path.dirname(os.path.abspath(__file__)))
REPO = os.environ.get("VERIF_REPO", "/repo")
HARNESS_DIR = os.path.join(VERIF, "harness")
MODELS_DIR = os.path.join(VERIF, "models")
EVIDENCE_DIR = os.environ.get("VERIF_EVIDENCE_DIR", os.path.join(VERIF, "evidence"))
REPLAY_DIR = os.path.join(VERIF, "replays")
CACHE_DIR = os.path.join(VERIF, ".cache")
SCRATCH_ROOT = os.environ.get("VERIF_SCRATCH", "/var/tmp")
NCPU = int(os.environ.get("VERIF_JOBS", str(os.cpu_count() or 4)))
MEM_KB = int(os.environ.get("VERIF_MEM_KB", str(32 * 1024 * 1024)))  # ulimit -v (virtual) per kani run; resident memory is governed by the weighted admission below

# source file (relative to src/) -> harness module file (in /verif/harness)
MOUNTS = {
    "maxvaluetrack.rs": "maxvaluetrack.rs",
    "fyshuffle.rs": "fyshuffle.rs",
    "exp01.rs": "exp01.rs",
    "jaccard.rs": "jaccard.rs",
    "invhash.rs": "invhash.rs",
    "superminhasher.rs": "superminhasher.rs",
    "superminhasher2.rs": "superminhasher2.rs",
    "setsketcher.rs": "setsketcher.rs",
    "densminhash.rs": "densminhash.rs",
    "probminhasher/probminhash2.rs": "probminhash2.rs",
    "probminhasher/probminhash3.rs": "probminhash3.rs",
    "probminhasher/probminhash3sha.rs": "probminhash3sha.rs",
    "probminhasher/probordminhash2.rs": "probordminhash2.rs",
    "probminhasher/sig.rs": "sig.rs",
}

# isolated mount sets: harnesses with `iso=<key>` run in a scratch copy of their own in which ONLY these modules
# (and common.rs) are mounted, so that they keep compiling when an unrelated harness module stops compiling
# against a changed tree (e.g. a changed field layout breaks a struct-literal helper).
ISO_MOUNTS = {
    "exp01_new": {"exp01.rs": "exp01_new.rs"},
}

ENV = dict(os.environ)
ENV.update({
    "CARGO_NET_OFFLINE": "true",
    "CARGO_TERM_COLOR": "never",
    "RUST_BACKTRACE": "0",
})
ENV.pop("RUSTUP_TOOLCHAIN", None)


def log(msg):
    sys.stderr.write("[pmhv %s] %s\n" % (time.strftime("%H:%M:%S"), msg))
    sys.stderr.flush()


def sh(cmd, cwd=None, timeout=None, env=None, out=None):
    """run a command, return (rc, output-text, seconds, timed_out)"""
    t0 = time.time()
    if out is not None:
        fh = open(out, "w")
    else:
        fh = tempfile.TemporaryFile(mode="w+")
    timed_out = False
    p = subprocess.Popen(cmd, cwd=cwd, env=env or ENV, stdout=fh, stderr=subprocess.STDOUT,
                         shell=isinstance(cmd, str), start_new_session=True)
    try:
        rc = p.wait(timeout=timeout)
    except subprocess.TimeoutExpired:
        timed_out = True
        try:
            os.killpg(p.pid, signal.SIGKILL)
        except ProcessLookupError:
            pass
        rc = p.wait()
    if out is not None:
        fh.close()
        with open(out, errors="replace") as f:
            text = f.read()
    else:
        fh.seek(0)
        text = fh.read()
        fh.close()
    return rc, text, time.time() - t0, timed_out


# ----------------------------------------------------------------------------------------
# scratch copy
# ----------------------------------------------------------------------------------------

def repo_fingerprint():
    """hash of the sources that get compiled (for evidence)"""
    h = hashlib.sha256()
    for root, dirs, files in os.walk(os.path.join(REPO, "src")):
        dirs.sort()
        for f in sorted(files):
            p = os.path.join(root, f)
            h.update(p.encode())
            with open(p, "rb") as fh:
                h.update(fh.read())
    with open(os.path.join(REPO, "Cargo.toml"), "rb") as fh:
        h.update(fh.read())
    return h.hexdigest()[:16]


def repo_head():
    rc, out, _, _ = sh(["git", "-C", REPO, "rev-parse", "--short", "HEAD"])
    dirty = sh(["git", "-C", REPO, "status", "--porcelain", "--untracked-files=no"])[1].strip()
    return out.strip() + ("+dirty" if dirty else "")


CARGO_PATCH = """

# ---- appended by /verif (scratch copy only) ----
[workspace]

[patch.crates-io]
rand = {{ path = "{models}/rand" }}
rand_xoshiro = {{ path = "{models}/rand_xoshiro" }}
rand_distr = {{ path = "{models}/rand_distr" }}
rand_chacha = {{ path = "{models}/rand_chacha" }}

[lints.rust]
unexpected_cfgs = {{ level = "allow", check-cfg = ['cfg(kani)'] }}
"""


def make_scratch(tag, mounts=None, models=True, extra_lib=None):
    """copy /repo's working tree (no target/, no .git/) and mount the harness modules"""
    os.makedirs(SCRATCH_ROOT, exist_ok=True)
    d = tempfile.mkdtemp(prefix="pmhv-%s-" % tag, dir=SCRATCH_ROOT)
    src = os.path.join(d, "repo")
    shutil.copytree(REPO, src, ignore=shutil.ignore_patterns("target", ".git"), symlinks=True)
    # Cargo.toml: log statically off, models patched in
    ct = os.path.join(src, "Cargo.toml")
    with open(ct) as f:
        txt = f.read()
    txt2 = re.sub(r'^log\s*=\s*\{\s*version\s*=\s*"0\.4"\s*\}', 'log = { version = "0.4", features = ["max_level_off", "release_max_level_off"] }', txt, flags=re.M)
    if models:
        txt2 += CARGO_PATCH.format(models=MODELS_DIR)
    else:
        txt2 += "\n[workspace]\n"
    with open(ct, "w") as f:
        f.write(txt2)
    # mount harness modules
    mounts = MOUNTS if mounts is None else mounts
    for rel, hfile in mounts.items():
        sp = os.path.join(src, "src", rel)
        hp = os.path.join(HARNESS_DIR, hfile)
        if not os.path.exists(hp):
            continue
        if not os.path.exists(sp):
            raise RuntimeError("source file %s vanished from /repo" % rel)
        with open(sp, "a") as f:
            f.write('\n#[cfg(kani)]\n#[path = "%s"]\npub(crate) mod verif_kani;\n' % hp)
    libp = os.path.join(src, "src", "lib.rs")
    with open(libp, "a") as f:
        f.write('\n#[cfg(kani)]\n#[path = "%s"]\npub(crate) mod verif_common;\n' % os.path.join(HARNESS_DIR, "common.rs"))
        if extra_lib:
            f.write(extra_lib)
    return d, src


def cache_key():
    h = hashlib.sha256()
    with open(os.path.join(REPO, "Cargo.lock"), "rb") as f:
        h.update(f.read())
    for root, dirs, files in os.walk(MODELS_DIR):
        dirs.sort()
        for fn in sorted(files):
            with open(os.path.join(root, fn), "rb") as f:
                h.update(fn.encode())
                h.update(f.read())
    h.update(MODELS_DIR.encode())
    return h.hexdigest()[:12]


def deps_cache_dir():
    return os.path.join(CACHE_DIR, "kani-target-" + cache_key())


KANI_FLAGS = ["-Z", "stubbing", "-Z", "unstable-options"]


def fq_name(name):
    """fully qualified harness name; harness names start with the property id and every
    harness file declares its harnesses at top level of `verif_kani`"""
    hf = harness_file_of(name)
    for mset in [MOUNTS] + list(ISO_MOUNTS.values()):
        for rel, f in mset.items():
            if f == hf:
                mod = rel[:-3].replace("/", "::")
                return "%s::verif_kani::%s" % (mod, name)
    raise RuntimeError("no mount for harness file %s" % hf)


_HFILE = {}


_HLOCK = threading.Lock()


def harness_file_of(name):
    with _HLOCK:
        if not _HFILE:
            tmp = {}
            for f in sorted(os.listdir(HARNESS_DIR)):
                if not f.endswith(".rs"):
                    continue
                with open(os.path.join(HARNESS_DIR, f)) as fh:
                    txt = fh.read()
                for m in re.finditer(r"\bfn (c\d\d_[A-Za-z0-9_]+)\b|\b(c\d\d_[A-Za-z0-9_]+)\b", txt):
                    nm = m.group(1) or m.group(2)
                    tmp.setdefault(nm, f)
            _HFILE.update(tmp)
    if name not in _HFILE:
        raise RuntimeError("harness %s not found in %s" % (name, HARNESS_DIR))
    return _HFILE[name]


def kani_cmd(harness, target_dir, extra=None):
    cmd = ["cargo", "kani", "--harness", fq_name(harness), "--exact", "--target-dir", target_dir,
           "-Z", "stubbing"]
    if extra:
        cmd += extra
    return cmd


def build_deps_cache(force=False):
    """compile the dependency graph once under the Kani compiler; checks start from a copy"""
    dst = deps_cache_dir()
    if os.path.isdir(dst) and not force:
        return dst
    os.makedirs(CACHE_DIR, exist_ok=True)
    import fcntl
    lockf = open(os.path.join(CACHE_DIR, "build.lock"), "w")
    fcntl.flock(lockf, fcntl.LOCK_EX)   # concurrent checks: one builds, the others wait
    if os.path.isdir(dst) and not force:
        lockf.close()
        return dst
    # drop caches of older model / lock-file versions
    for old in os.listdir(CACHE_DIR):
        if old.startswith("kani-target-") and os.path.join(CACHE_DIR, old) != dst:
            shutil.rmtree(os.path.join(CACHE_DIR, old), ignore_errors=True)
    log("building dependency cache %s" % dst)
    d, src = make_scratch("deps")
    try:
        tmp_t = dst + ".tmp"
        shutil.rmtree(tmp_t, ignore_errors=True)
        rc, out, secs, to = sh(kani_cmd("c15_fresh_f64_m1", tmp_t), cwd=src, timeout=1800)
        if "VERIFICATION:- SUCCESSFUL" not in out:
            log(out[-3000:])
            raise RuntimeError("dependency cache build failed")
        # drop the crate's own artifacts; keep deps
        shutil.rmtree(dst, ignore_errors=True)
        os.rename(tmp_t, dst)
        log("dependency cache built in %.0f s" % secs)
    finally:
        shutil.rmtree(d, ignore_errors=True)
        lockf.close()
    return dst


# ----------------------------------------------------------------------------------------
# running one harness
# ----------------------------------------------------------------------------------------

class Harness:
    def __init__(self, name, timeout=300, tier="quick", desc="", bounds="", funcs=None,
                 stubs=None, assumes=None, expect_cover=True, extra=None, group=None,
                 unwind_is_violation=False, native_confirm=None, iso=None):
        self.iso = iso
        self.unwind_is_violation = unwind_is_violation
        self.native_confirm = native_confirm
        self.name = name
        self.timeout = timeout
        self.tier = tier          # "quick": run in both tiers; "thorough": thorough only
        self.desc = desc
        self.bounds = bounds
        self.funcs = funcs or []
        self.stubs = stubs or []
        self.assumes = assumes or []
        self.expect_cover = expect_cover
        self.extra = extra or []
        self.group = group


RE_CHECK = re.compile(r"^Check (\d+): (\S+)\n\s+- Status: (\w+)\n\s+- Description: \"(.*)\"\n\s+- Location: (.*)$", re.M)


def parse_kani(out):
    r = {}
    r["successful"] = "VERIFICATION:- SUCCESSFUL" in out
    r["failed"] = "VERIFICATION:- FAILED" in out
    m = re.search(r"\*\* (\d+) of (\d+) failed", out)
    r["n_checks"] = int(m.group(2)) if m else 0
    r["n_failed"] = int(m.group(1)) if m else 0
    m = re.search(r"\*\* (\d+) of (\d+) cover properties satisfied", out)
    r["covers_sat"] = int(m.group(1)) if m else 0
    r["covers"] = int(m.group(2)) if m else 0
    m = re.search(r"(\d+) variables, (\d+) clauses", out)
    r["sat_vars"] = int(m.group(1)) if m else 0
    r["sat_clauses"] = int(m.group(2)) if m else 0
    m = re.search(r"Runtime Symex: ([\d.e+-]+)s", out)
    r["symex_s"] = float(m.group(1)) if m else None
    solver = [float(x) for x in re.findall(r"Runtime Solver: ([\d.e+-]+)s", out)]
    r["solver_s"] = round(sum(solver), 3) if solver else None
    m = re.search(r"Runtime decision procedure: ([\d.e+-]+)s", out)
    r["decision_s"] = float(m.group(1)) if m else None
    m = re.search(r"Verification Time: ([\d.e+-]+)s", out)
    r["verif_s"] = float(m.group(1)) if m else None
    m = re.search(r"size of program expression: (\d+) steps", out)
    r["symex_steps"] = int(m.group(1)) if m else None
    failed = []
    unwind_fail = False
    for cm in RE_CHECK.finditer(out):
        if cm.group(3) in ("FAILURE", "UNREACHABLE", "SUCCESS", "UNDETERMINED", "SATISFIED", "UNSATISFIABLE"):
            pass
        if cm.group(3) == "FAILURE":
            failed.append({"check": cm.group(2), "desc": cm.group(4), "loc": cm.group(5).strip()})
            if "unwinding assertion" in cm.group(4):
                unwind_fail = True
    # the summary section "Failed Checks:"
    for fm in re.finditer(r"^Failed Checks: (.*)\n File: \"(.*)\", line (\d+), in (.*)$", out, re.M):
        item = {"desc": fm.group(1), "loc": "%s:%s in %s" % (fm.group(2), fm.group(3), fm.group(4))}
        if not any(f["desc"] == item["desc"] and item["loc"].split(" in ")[-1] in f["loc"] for f in failed):
            failed.append(item)
        if "unwinding assertion" in fm.group(1):
            unwind_fail = True
    r["failed_checks"] = failed
    r["unwind_fail"] = unwind_fail
    r["stubs_applied"] = re.findall(r"- Stub: (.*)", out)
    r["compile_error"] = ("error: could not compile" in out) or ("error[E" in out) or ("error: " in out and "VERIFICATION" not in out)
    r["unsupported"] = re.findall(r"unsupported_construct.*|is not currently supported by Kani.*", out)[:3]
    r["cbmc_error"] = "CBMC failed" in out or "Status: ERROR" in out or "out of memory" in out.lower() or "std::bad_alloc" in out
    return r


class Result:
    pass


def run_kani_harness(h, src, target_dir, logdir, playback=False):
    """returns dict verdict: pass | fail | undecided"""
    logf = os.path.join(logdir, h.name + ".log")
    extra = ["--output-format", "regular"] + list(h.extra)
    cmd = kani_cmd(h.name, target_dir, extra)
    pre = "ulimit -v %d; exec " % MEM_KB
    full = pre + " ".join("'%s'" % c for c in cmd)
    rc, out, secs, timed_out = sh(full, cwd=src, timeout=h.timeout, out=logf)
    r = parse_kani(out)
    r["name"] = h.name
    if r["compile_error"]:
        ls_ = [l for l in out.splitlines() if "unstable" not in l and "register_tool" not in l]
        ex = []
        for i, l in enumerate(ls_):
            if l.startswith("error"):
                ex += ls_[i:i + 7]
            if len(ex) > 40:
                break
        r["err_excerpt"] = "\n".join(x[:240] for x in ex[:40])
    r["wall_s"] = round(secs, 1)
    r["timed_out"] = timed_out
    r["rc"] = rc
    r["log"] = logf
    if timed_out:
        r["verdict"] = "undecided"
        r["why"] = "timeout after %ds" % h.timeout
    elif r["compile_error"] and not (r["successful"] or r["failed"]):
        r["verdict"] = "error"
        r["why"] = "harness does not compile against the current tree"
    elif r["successful"] and rc == 0 and h.expect_cover == "none":
        # should_panic harness: success = the call panicked; the cover after the call must be unreachable
        if r["covers"] >= 1 and r["covers_sat"] == 0:
            r["verdict"] = "pass"
            r["why"] = ""
        else:
            r["verdict"] = "fail"
            r["why"] = "a value was returned where the call must not return (cover after the call is reachable)"
            r["failed_checks"] = [{"desc": "MUST-BE-UNREACHABLE cover satisfied", "loc": h.name}]
    elif r["successful"] and rc == 0:
        if h.expect_cover and (r["covers"] == 0 or r["covers_sat"] < r["covers"]):
            r["verdict"] = "error"
            r["why"] = "vacuity witness not satisfied (%d of %d covers)" % (r["covers_sat"], r["covers"])
        else:
            r["verdict"] = "pass"
            r["why"] = ""
    elif h.expect_cover == "none" and r["covers"] >= 1 and r["covers_sat"] >= 1:
        # should_panic harness whose cover AFTER the call is reachable: the call returned a value where it must not
        r["verdict"] = "fail"
        r["why"] = "a value was returned where the call must not return (cover after the call is reachable)"
        r["failed_checks"] = [{"desc": "MUST-BE-UNREACHABLE cover satisfied", "loc": h.name}]
        r["returns_where_it_must_not"] = True
    elif r["failed"] and r["unwind_fail"] and not h.unwind_is_violation and all("unwinding assertion" in f["desc"] for f in r["failed_checks"]):
        r["verdict"] = "error"
        r["why"] = "unwinding bound of the harness too small for the current code: " + "; ".join(f["loc"] for f in r["failed_checks"][:3])
    elif r["failed"]:
        if r["cbmc_error"] and not r["failed_checks"]:
            r["verdict"] = "undecided"
            r["why"] = "CBMC error / out of memory"
        else:
            r["verdict"] = "fail"
            r["why"] = "; ".join("%s @ %s" % (f["desc"], f["loc"]) for f in r["failed_checks"][:4])
    else:
        r["verdict"] = "undecided"
        r["why"] = "no verdict (rc=%s)" % rc
    return r


def harness_exists(name):
    rc, out, _, _ = sh("grep -rlE '\\b%s\\b' %s" % (name, HARNESS_DIR))
    return rc == 0


# ----------------------------------------------------------------------------------------
# counterexample replay (Kani concrete playback, run natively against the real code)
# ----------------------------------------------------------------------------------------

UB_CLASSES = ("pointer_dereference", "precondition_instance", "free argument", "double free",
              "dereference failure", "deallocated", "pointer outside object bounds",
              "memory leak", "misaligned", "dead object")


def extract_playback_test(out):
    """the unit test Kani prints with --concrete-playback=print"""
    m = re.search(r"```\n(#\[test\]\nfn (kani_concrete_playback_[A-Za-z0-9_]+)\(\) \{.*?\n\})\n```", out, re.S)
    if not m:
        m = re.search(r"(#\[test\]\s*\nfn (kani_concrete_playback_[A-Za-z0-9_]+)\(\) \{.*?\n\})", out, re.S)
    if not m:
        return None, None
    return m.group(1), m.group(2)


def make_replay(prop, h, res, src_scratch, target_dir, logdir):
    """re-run the failing harness with concrete playback, store a self-contained replay
    directory under /verif/replays and run it natively. returns (path, reproduced, note)"""
    extra = ["--output-format", "regular", "-Z", "concrete-playback", "--concrete-playback=print"] + list(h.extra)
    cmd = kani_cmd(h.name, target_dir, extra)
    # no address-space limit here: kani-driver holds CBMC's whole JSON trace in memory
    full = " ".join("'%s'" % c for c in cmd)
    logf = os.path.join(logdir, h.name + ".playback.log")
    rc, out, secs, to = sh(full, cwd=src_scratch, timeout=max(h.timeout, 300) * 2, out=logf)
    test_src, test_name = extract_playback_test(out)
    key = hashlib.sha256((h.name + repo_fingerprint() + (test_src or res.get("why", ""))).encode()).hexdigest()[:10]
    rdir = os.path.join(REPLAY_DIR, prop, "%s-%s" % (h.name, key))
    shutil.rmtree(rdir, ignore_errors=True)
    os.makedirs(os.path.join(rdir, "harness"))
    for f in os.listdir(HARNESS_DIR):
        if f.endswith(".rs"):
            shutil.copy(os.path.join(HARNESS_DIR, f), os.path.join(rdir, "harness", f))
    hf = harness_file_of(h.name)
    info = {
        "property": prop, "harness": h.name, "harness_file": hf, "fq_name": fq_name(h.name), "iso": h.iso,
        "repo_fingerprint": repo_fingerprint(), "repo_head": repo_head(),
        "failed_checks": res.get("failed_checks", []), "playback_test": test_name,
        "how": "python3 %s/lib/pmhv.py --replay %s   (exit 1 = the violation reproduces natively)" % (VERIF, rdir),
    }
    # keep the counterexample part of the log
    with open(os.path.join(rdir, "kani_failure.log"), "w") as f:
        keep = [l for l in out.splitlines() if not l.startswith("Unwinding loop")]
        # only the failed checks + summary + playback
        txt = "\n".join(keep)
        i = txt.find("SUMMARY:")
        f.write("\n".join("%s @ %s" % (c["desc"], c["loc"]) for c in res.get("failed_checks", [])))
        f.write("\n\n")
        f.write(txt[i:] if i >= 0 else txt[-20000:])
    # git diff of /repo w.r.t. HEAD so that the replay says which tree it was found on
    rc2, diff, _, _ = sh(["git", "-C", REPO, "diff", "HEAD", "--", "src", "Cargo.toml"])
    with open(os.path.join(rdir, "repo_diff_vs_HEAD.patch"), "w") as f:
        f.write(diff)
    if not test_src and h.unwind_is_violation and res.get("unwind_fail"):
        # non-termination candidate: Kani prints no playback test for a pure unwinding failure.
        # The harness takes no symbolic input on this path, so the replay is the harness itself.
        test_name = "kani_concrete_playback_%s_nonterm" % h.name
        test_src = ("#[test]\nfn %s() {\n    unsafe {\n        rand_xoshiro::oracle::NATIVE_FALLBACK = true;\n        rand_chacha::oracle::NATIVE_FALLBACK = true;\n    }\n"
                    "    let concrete_vals: Vec<Vec<u8>> = vec![];\n    kani::concrete_playback_run(concrete_vals, %s);\n}") % (test_name, h.name)
        info["playback_test"] = test_name
        info["expect_hang"] = True
    if not test_src:
        info["note"] = "Kani produced no concrete playback test for this failure"
        with open(os.path.join(rdir, "info.json"), "w") as f:
            json.dump(info, f, indent=1)
        return rdir, None, info["note"]
    with open(os.path.join(rdir, "harness", hf), "a") as f:
        f.write("\n// ---- counterexample found by CBMC, as printed by Kani's concrete playback ----\n")
        f.write(test_src + "\n")
    with open(os.path.join(rdir, "info.json"), "w") as f:
        json.dump(info, f, indent=1)
    if h.native_confirm:
        reproduced, note = h.native_confirm(test_src, rdir)
    else:
        reproduced, note = run_replay(rdir)
    info["reproduced_natively"] = reproduced
    info["replay_note"] = note
    with open(os.path.join(rdir, "info.json"), "w") as f:
        json.dump(info, f, indent=1)
    return rdir, reproduced, note


def run_replay(rdir):
    """build a scratch copy of /repo's current tree with the replay's harness dir mounted and
    run the playback unit test natively (dev profile, then --release).
    returns (True|False|None, note)"""
    global HARNESS_DIR
    with open(os.path.join(rdir, "info.json")) as f:
        info = json.load(f)
    if not info.get("playback_test"):
        return None, "no playback test stored"
    saved = HARNESS_DIR
    HARNESS_DIR = os.path.join(rdir, "harness")
    try:
        d, src = make_scratch("replay", mounts=ISO_MOUNTS.get(info.get("iso")))
    finally:
        HARNESS_DIR = saved
    notes = []
    reproduced = False
    try:
        for prof in (False, True):
            base = ["cargo", "kani", "playback", "-Z", "concrete-playback", "--lib"]
            env = dict(ENV)
            env["CARGO_TARGET_DIR"] = os.path.join(d, "tgt")
            if prof:
                # `cargo kani playback` has no --release: give the test profile release settings
                env["CARGO_PROFILE_TEST_OPT_LEVEL"] = "3"
                env["CARGO_PROFILE_TEST_DEBUG_ASSERTIONS"] = "false"
                env["CARGO_PROFILE_TEST_OVERFLOW_CHECKS"] = "false"
            pname = "release-like" if prof else "dev"
            # build first, so that the run itself can be given a short time limit (hang detection)
            rc, out, secs, to = sh(base + ["--only-codegen"], cwd=src, timeout=1500, env=env)
            run_limit = 60 if info.get("expect_hang") else 600
            rc, out, secs, to = sh(base + ["--", info["playback_test"], "--nocapture"], cwd=src, timeout=run_limit, env=env)
            tail = "\n".join(out.splitlines()[-30:])
            if to:
                if "Running unittests" in out:
                    notes.append("%s profile: the call did not return within %d s natively (hang reproduced)" % (pname, run_limit))
                    reproduced = True
                else:
                    notes.append("%s profile: playback build did not finish: %s" % (pname, tail[-300:]))
                continue
            ran = None
            for ran in re.finditer(r"test result: (\w+)\. (\d+) passed; (\d+) failed", out):
                if int(ran.group(2)) + int(ran.group(3)) > 0:
                    break
            if ran and int(ran.group(3)) > 0 and re.search(r"concrete_playback\.rs|`kani::assume` should always hold|Not enough det vals", out):
                notes.append("%s profile: playback is not faithful for this harness (stubs are not applied natively / leftover values): not a reproduction" % pname)
            elif ran and int(ran.group(3)) > 0:
                pm = re.search(r"panicked at (.*?):\n(.*)", out)
                if pm is None:
                    pm = re.search(r"(Failed Checks|assertion failed)(.*)", out)
                notes.append("%s profile: test FAILED natively (%s)" % (pname, (pm.group(1) + " " + pm.group(2)[:200]) if pm else "panic"))
                reproduced = True
            elif ran and int(ran.group(2)) > 0:
                notes.append("%s profile: test passed natively (not reproduced)" % pname)
            elif "SIGSEGV" in out or "SIGABRT" in out or "signal:" in out:
                notes.append("%s profile: test process died on a signal: %s" % (pname, tail[-300:]))
                reproduced = True
            else:
                notes.append("%s profile: playback did not run: %s" % (pname, tail[-600:]))
        with open(os.path.join(rdir, "native_replay.log"), "w") as f:
            f.write("\n".join(notes) + "\n")
    finally:
        shutil.rmtree(d, ignore_errors=True)
    return reproduced, " | ".join(notes)


# ----------------------------------------------------------------------------------------
# known findings
# ----------------------------------------------------------------------------------------

def load_known():
    p = os.path.join(VERIF, "known_findings.json")
    if not os.path.exists(p):
        return {"findings": [], "fixed": []}
    with open(p) as f:
        return json.load(f)


def match_known(prop, harness_name, res):
    """a recorded (unrepaired) finding matches a failure when the harness role and the
    failing check description/location pattern both match"""
    for k in load_known().get("findings", []):
        if k["property"] != prop:
            continue
        if not re.search(k["harness_re"], harness_name):
            continue
        fc = res.get("failed_checks", [])
        if fc and all(any(re.search(p, c["desc"] + " @ " + c["loc"]) for p in k["check_res"]) for c in fc):
            return k
    return None


# ----------------------------------------------------------------------------------------
# SMT lemma used by the vendored rand model
# ----------------------------------------------------------------------------------------

LEMMA_WMUL = """(set-logic ALL)
(declare-const x (_ BitVec {w}))
(define-fun wide () (_ BitVec {w2}) (bvmul ((_ zero_extend {w}) x) ((_ zero_extend {w}) (bvnot (_ bv0 {w})))))
(define-fun hi () (_ BitVec {w}) ((_ extract {h} {w}) wide))
(define-fun lo () (_ BitVec {w}) ((_ extract {l} 0) wide))
(assert (not (and (=> (distinct x (_ bv0 {w})) (and (= hi (bvsub x (_ bv1 {w}))) (= lo (bvneg x)) (bvuge lo (_ bv1 {w}))))
                  (=> (= x (_ bv0 {w})) (= lo (_ bv0 {w}))))))
(check-sat)
"""


def lemma_wmul_allones(workdir):
    """the identity the vendored rand model relies on for ranges 2^w - 1 (w = 32, 64):
    for x != 0: hi(x * (2^w - 1)) = x - 1, lo = -x >= thresh = 1;  for x = 0: lo = 0 < thresh (rejected)"""
    res = []
    for w in (32, 64):
        path = os.path.join(workdir, "lemma_wmul_%d.smt2" % w)
        with open(path, "w") as f:
            f.write(LEMMA_WMUL.format(w=w, w2=2 * w, h=2 * w - 1, l=w - 1))
        ans = []
        for nm, cmd in (("cvc5-bv-as-int", ["cvc5", "--lang", "smt2", "--solve-bv-as-int=sum"]), ("cvc5", ["cvc5", "--lang", "smt2"]), ("z3", ["/usr/bin/z3", "-smt2"])):
            rc, out, secs, to = sh(cmd + [path], timeout=10)
            first = out.strip().splitlines()[0] if out.strip() else ""
            ans.append((nm, "timeout" if to else ("error" if "(error" in out else first), round(secs, 2)))
        ok = any(a[1] == "unsat" for a in ans) and not any(a[1] in ("sat", "error") for a in ans)
        res.append({"lemma": "wmul by 2^%d-1: hi = x-1, lo = -x, rejected iff x = 0" % w, "holds": ok, "solvers": ans})
    return res


# ----------------------------------------------------------------------------------------
# a whole check
# ----------------------------------------------------------------------------------------

def run_property(prop, spec, tier, seed, only=None, keep=False, jobs=None):
    """spec: dict(level, harnesses=[Harness], functions, assumptions, not_decided, ...)"""
    t0 = time.time()
    hs = [h for h in spec["harnesses"] if tier == "thorough" or h.tier == "quick"]
    if tier == "quick" and spec.get("quick_rotate"):
        # VERIF_SEED selects which members of the rotating families run in the quick tier
        for fam in spec["quick_rotate"]:
            members = [h for h in spec["harnesses"] if h.group == fam]
            if members:
                pick = members[seed % len(members)]
                if pick not in hs:
                    hs.append(pick)
    if only:
        hs = [h for h in spec["harnesses"] if re.search(only, h.name)]
    os.makedirs(EVIDENCE_DIR, exist_ok=True)
    results = []
    violations = []
    known_hits = []
    undecided = []
    errors = []
    lemmas = []
    d = None
    iso_dirs = []
    try:
        cache = build_deps_cache()
        d, src = make_scratch(prop.lower())
        logdir = os.path.join(d, "logs")
        os.makedirs(logdir)
        iso_src = {None: src}
        for key in sorted(set(h.iso for h in hs if h.iso)):
            d2, s2 = make_scratch("%s-%s" % (prop.lower(), key), mounts=ISO_MOUNTS[key])
            iso_dirs.append(d2)
            iso_src[key] = s2
        for lf in spec.get("lemmas", []):
            lemmas += lf(d)
        nworkers = max(1, min(jobs or NCPU, len(hs)))
        # longest first
        order = sorted(hs, key=lambda h: -h.timeout)
        lock = threading.Lock()
        mem_cv = threading.Condition()
        mem_used = [0.0]
        queue = list(order)
        tdirs = []

        def worker(wi):
            tdir = os.path.join(d, "tgt%d" % wi)
            with lock:
                tdirs.append(tdir)
            shutil.copytree(cache, tdir, symlinks=True)
            while True:
                with lock:
                    if not queue:
                        return
                    h = queue.pop(0)
                wgt = mem_weight(h)
                with mem_cv:
                    while mem_used[0] + wgt > MEM_BUDGET_GB and mem_used[0] > 0:
                        mem_cv.wait(timeout=10)
                    mem_used[0] += wgt
                try:
                    wait_for_memory()
                    r = run_kani_harness(h, iso_src[h.iso], tdir, logdir)
                finally:
                    with mem_cv:
                        mem_used[0] -= wgt
                        mem_cv.notify_all()
                log("%s %-44s %-9s %6.1fs vars=%s %s" % (prop, h.name, r["verdict"], r["wall_s"], r["sat_vars"], r["why"][:160]))
                if r["verdict"] == "fail":
                    k = match_known(prop, h.name, r)
                    if k:
                        r["known_finding"] = k["id"]
                    elif r.get("returns_where_it_must_not") and not [c for c in r.get("failed_checks", []) if "MUST-BE" not in c["desc"]]:
                        # nothing to play back (no failed check, only a reachable cover): report with the log as replay
                        rdir = os.path.join(REPLAY_DIR, prop, "%s-cover" % h.name)
                        os.makedirs(rdir, exist_ok=True)
                        shutil.copy(r["log"], os.path.join(rdir, "kani.log"))
                        r["replay"] = rdir
                        r["reproduced"] = True
                        r["replay_note"] = "cover after the call SATISFIED (solver witness that the call returns); see kani.log"
                    else:
                        rdir, reproduced, note = make_replay(prop, h, r, iso_src[h.iso], tdir, logdir)
                        r["replay"] = rdir
                        r["reproduced"] = reproduced
                        r["replay_note"] = note
                        log("%s %s replay: reproduced=%s %s" % (prop, h.name, reproduced, (note or "")[:300]))
                with lock:
                    results.append((h, r))

        with ThreadPoolExecutor(max_workers=nworkers) as ex:
            futs = [ex.submit(worker, i) for i in range(nworkers)]
            for f in futs:
                f.result()
        if keep:
            log("scratch kept at %s" % d)
    finally:
        if d and not keep:
            shutil.rmtree(d, ignore_errors=True)
        for d2 in iso_dirs:
            if not keep:
                shutil.rmtree(d2, ignore_errors=True)

    results.sort(key=lambda hr: hr[0].name)
    for h, r in results:
        if r["verdict"] == "pass":
            continue
        if r["verdict"] == "fail":
            if r.get("known_finding"):
                known_hits.append((h, r))
            elif r.get("reproduced") or (r.get("reproduced") is not False and ub_only(r)) or spec.get("report_unreplayed"):
                violations.append((h, r))
            elif ub_only(r):
                violations.append((h, r))
            else:
                r["verdict"] = "undecided"
                r["why"] = "counterexample did not reproduce natively: " + r["why"]
                undecided.append((h, r))
        elif r["verdict"] == "undecided":
            undecided.append((h, r))
        else:
            errors.append((h, r))
    for lm in lemmas:
        if not lm["holds"]:
            hh = Harness("lemma", desc=lm["lemma"])
            undecided.append((hh, {"verdict": "undecided", "why": "SMT lemma used by the environment model not proved: %s %s" % (lm["lemma"], lm["solvers"])}))
    return dict(results=results, violations=violations, known_hits=known_hits, undecided=undecided,
                errors=errors, wall_s=time.time() - t0, harnesses=hs, lemmas=lemmas)


# memory-weighted admission: the sandbox has 62 GB and no swap; 16 concurrent CBMC runs of the large harnesses
# (5-8 GB each at their peak, goto-instrument included) were killed by the kernel's OOM killer
HEAVY_RE = re.compile(r"c09_rev_densify|c09_(opt|rev)_slice|c09_opt_densify_m4|c02_pmh|c04_ss_step|c04_smh_step_.*_m4|c04_smh2_step_m4|c12_pmh2|c03_single_.*_m4")
MEM_BUDGET_GB = float(os.environ.get("VERIF_MEM_BUDGET_GB", "44"))


def mem_weight(h):
    return 8.0 if HEAVY_RE.search(h.name) else 2.0


def mem_available_gb():
    try:
        with open("/proc/meminfo") as f:
            for l in f:
                if l.startswith("MemAvailable:"):
                    return int(l.split()[1]) / 1048576.0
    except Exception:
        pass
    return 1e9


def wait_for_memory(need_gb=10.0, max_wait=1800):
    """admission control: the sandbox has no swap; do not start another CBMC while less than need_gb is free"""
    t0 = time.time()
    import random
    time.sleep(random.random() * 2)
    while mem_available_gb() < need_gb and time.time() - t0 < max_wait:
        time.sleep(5)


def ub_only(r):
    fc = r.get("failed_checks", [])
    return bool(fc) and all(any(u in (c["desc"] + c.get("check", "")) for u in UB_CLASSES) for c in fc)


def write_evidence(prop, spec, tier, seed, run, extra_cov=None):
    samples = []
    n_checks = 0
    n_pass = 0
    solver_s = 0.0
    symex_s = 0.0
    for h, r in run["results"]:
        n_checks += r.get("n_checks", 0)
        solver_s += r.get("solver_s") or 0.0
        symex_s += r.get("symex_s") or 0.0
        if r["verdict"] == "pass":
            n_pass += 1
        samples.append({
            "harness": h.name, "what": h.desc, "bounds": h.bounds, "verdict": r["verdict"],
            "cbmc_checks": r.get("n_checks"), "cbmc_failed": r.get("n_failed"),
            "vacuity_witness": "%s/%s covers satisfied" % (r.get("covers_sat"), r.get("covers")),
            "sat_vars": r.get("sat_vars"), "sat_clauses": r.get("sat_clauses"),
            "symex_steps": r.get("symex_steps"), "symex_s": r.get("symex_s"), "solver_s": r.get("solver_s"),
            "wall_s": r.get("wall_s"), "stubs_applied": r.get("stubs_applied"),
            "note": r.get("why", ""), "known_finding": r.get("known_finding"),
            "replay": r.get("replay"), "reproduced_natively": r.get("reproduced"),
        })
    cov = {
        "evaluations": len(run["results"]),
        "distinct_nontrivial": n_pass + len(run["known_hits"]),
        "rule": "one evaluation = one SAT query set (all CBMC checks of one harness instance) over the formula "
                "generated from /repo's current sources; an instance counts as non-trivial when it reached a "
                "solver verdict and its reachability witness (kani::cover) was SATISFIED; instances differ in "
                "function/type instantiation or size bound",
        "samples": samples,
        "obligations": n_checks,
        # (in a should_panic harness that passed, the "failed" checks are the expected panic: they count as discharged)
        "discharged": sum((r.get("n_checks", 0) - (0 if (r["verdict"] == "pass" and h.expect_cover == "none") else r.get("n_failed", 0)))
                          for h, r in run["results"] if r["verdict"] in ("pass", "fail")),
        "queries_cbmc_checks": n_checks,
        "solver_seconds": round(solver_s, 2),
        "symex_seconds": round(symex_s, 2),
        "functions_encoded": spec.get("functions", []),
        "bounds": spec.get("bounds", {}).get(tier, spec.get("bounds", "")),
        "outside_bounds": spec.get("outside", ""),
        "not_decided": spec.get("not_decided", []),
        "undecided_instances": [h.name for h, r in run["undecided"]],
        "error_instances": [h.name + ": " + r.get("why", "") for h, r in run["errors"]],
        "known_findings_hit": [r["known_finding"] for h, r in run["known_hits"]],
        "repo_head": repo_head(), "repo_fingerprint": repo_fingerprint(),
        "engine": spec.get("engine", "Kani 0.68.0 / CBMC 6.11.0 / CaDiCaL"),
        "exhaustive": False,
        "smt_lemmas": run.get("lemmas", []),
    }
    if extra_cov:
        cov.update(extra_cov)
    ev = {
        "property_id": prop, "tier": tier, "seed": seed, "level": spec.get("level", "model_checking"),
        "coverage": cov,
        "assumptions": spec.get("assumptions", []),
        "wall_s": round(run["wall_s"], 1),
        "violations": len(run["violations"]),
    }
    os.makedirs(EVIDENCE_DIR, exist_ok=True)
    with open(os.path.join(EVIDENCE_DIR, prop + ".json"), "w") as f:
        json.dump(ev, f, indent=1)
    return ev


def finish(prop, run):
    """print the verdict lines and return the exit code"""
    for h, r in run["known_hits"]:
        k = r["known_finding"]
        kk = [x for x in load_known()["findings"] if x["id"] == k][0]
        print("KNOWN-FINDING: property=%s %s [%s via %s]" % (prop, kk["what"], k, h.name))
    for h, r in run["violations"]:
        print("VIOLATION property=%s replay=%s" % (prop, r.get("replay")))
        print("  harness %s: %s" % (h.name, r["why"][:400]))
        if r.get("replay_note"):
            print("  native replay: %s" % r["replay_note"][:400])
    for h, r in run["undecided"]:
        print("UNDECIDED property=%s harness=%s: %s" % (prop, h.name, r["why"][:300]))
    for h, r in run["errors"]:
        print("ERROR property=%s harness=%s: %s (log tail follows)" % (prop, h.name, r["why"][:300]))
        if r.get("err_excerpt"):
            print(r["err_excerpt"])
    npass = sum(1 for h, r in run["results"] if r["verdict"] == "pass")
    print("%s: %d harness instances, %d pass, %d known-finding, %d violation, %d undecided, %d error, %.0f s" % (
        prop, len(run["results"]), npass, len(run["known_hits"]), len(run["violations"]), len(run["undecided"]), len(run["errors"]), run["wall_s"]))
    if run["violations"]:
        return 1
    if run["undecided"] or run["errors"]:
        return 2
    return 0


def main(argv):
    import argparse
    ap = argparse.ArgumentParser()
    ap.add_argument("prop", nargs="?")
    ap.add_argument("--tier", default=os.environ.get("VERIF_TIER", "quick"))
    ap.add_argument("--only")
    ap.add_argument("--keep", action="store_true")
    ap.add_argument("--jobs", type=int)
    ap.add_argument("--replay")
    ap.add_argument("--setup", action="store_true")
    a = ap.parse_args(argv)
    seed = int(os.environ.get("VERIF_SEED", "0") or 0)
    if a.setup:
        build_deps_cache()
        return 0
    if a.replay:
        rep, note = run_replay(a.replay)
        print("reproduced=%s %s" % (rep, note))
        return 1 if rep else 0
    sys.path.insert(0, os.path.join(VERIF, "lib"))
    import registry
    prop = a.prop.upper()
    spec = registry.SPECS[prop]
    if spec.get("custom"):
        return spec["custom"](prop, spec, a.tier, seed, a)
    run = run_property(prop, spec, a.tier, seed, only=a.only, keep=a.keep, jobs=a.jobs)
    if not a.only:
        write_evidence(prop, spec, a.tier, seed, run)
    return finish(prop, run)


if __name__ == "__main__":
    try:
        rc = main(sys.argv[1:])
    except Exception:
        import traceback
        traceback.print_exc()
        print("ERROR the check itself failed (see traceback): not decided")
        rc = 2
    sys.exit(rc)
