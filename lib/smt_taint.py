#!/usr/bin/env python3
"""
Engine T: data-flow entailment over the MIR of the current tree, decided by an SMT solver.

The whole crate's MIR is dumped with the nightly compiler; every function body is turned into
Horn-style implications over Boolean variables t[f, local] ("the value of this local may differ
between two executions that received equal arguments" / "may carry the designated source value"):

    t[f, dst]  <=  t[f, src]                     for every assignment / call argument -> result
    t[f, dst]                                    when the callee is a *source* API
    t[g, param_i] <= t[f, arg_i],  t[f, dst] <= t[g, _0]      for calls between crate functions
    t[f, x]    <=  t[f, other args]              when &mut x is passed to a call (callee may write it)

The question "must sink s be true in every model of the implications?" is the entailment
(implications  /\  not t[s]) unsat, which z3 and cvc5 decide (QF_UF / pure SAT).  `unsat` = the sink
is reached by a source on some data-flow path = finding; `sat` = the least model does not reach it.
It is a may-analysis that is flow- and context-insensitive: it can over-report (then the replay, a
native differential run of the real code, decides) but it cannot miss a direct data flow through
assignments, calls and &mut arguments.  What it does not see: flows through raw pointers / statics /
interior mutability, and control dependence.
"""
import json
import os
import re
import shutil
import subprocess
import sys
import tempfile
import time

sys.path.insert(0, os.path.dirname(os.path.abspath(__file__)))
import pmhv

ENTROPY_PATTERNS = [
    r"\bThreadRng\b", r"\bOsRng\b", r"\brand::rng\b", r"\bthread_rng\b", r"\brng\(\)", r"RandomState::new", r"RandomState as Default",
    r"SystemTime::now", r"Instant::now", r"getrandom", r"process::id", r"thread::current", r"\bfrom_os_rng\b", r"\bfrom_entropy\b",
    r"hashmap_random_keys", r"\bstd::env::", r"as \*const .* as usize",
]
RNG_TYPES = re.compile(r"ThreadRng|OsRng|StdRng|ReseedingRng")


def dump_crate_mir(work):
    d = os.path.join(work, "crate")
    shutil.copytree(pmhv.REPO, d, ignore=shutil.ignore_patterns("target", ".git"))
    env = dict(pmhv.ENV)
    env["CARGO_TARGET_DIR"] = os.path.join(pmhv.CACHE_DIR, "mir-target")
    os.makedirs(pmhv.CACHE_DIR, exist_ok=True)
    p = subprocess.run(["cargo", "+nightly", "rustc", "--offline", "--lib", "--", "-Zunpretty=mir"], cwd=d, env=env,
                       stdout=subprocess.PIPE, stderr=subprocess.PIPE, text=True)
    if p.returncode != 0 or "fn " not in p.stdout:
        raise RuntimeError("MIR dump failed: " + p.stderr[-1500:])
    return p.stdout


class Func:
    def __init__(self, header, name, params, body):
        self.header = header
        self.name = name            # e.g. probordminhash2::<impl at src/...:199:1: 201:25>::new
        self.short = name.split("::")[-1]
        self.params = params        # list of (local, type)
        self.body = body
        self.types = dict(params)
        for m in re.finditer(r"^\s*let (?:mut )?(_\d+): ([^;]+);", body, re.M):
            self.types[m.group(1)] = m.group(2).strip()
        m = re.search(r"\) -> (.*) \{$", header)
        self.types["_0"] = m.group(1) if m else "()"
        self.file = ""
        m = re.search(r"impl at (src/[^:]+):(\d+)", name)
        if m:
            self.file = m.group(1)
            self.impl_line = int(m.group(2))
        self.debug = {}
        for m in re.finditer(r"debug (\w+) => (_\d+)", body):
            self.debug[m.group(2)] = m.group(1)


def parse_functions(mir):
    fns = []
    for m in re.finditer(r"^(fn (.+?)\((.*?)\) -> .*? \{)\n(.*?)^\}\n", mir, re.S | re.M):
        header, name, params, body = m.group(1), m.group(2), m.group(3), m.group(4)
        ps = []
        for pm in re.finditer(r"(_\d+): ([^,]+(?:<[^>]*>)?[^,]*)", params):
            ps.append((pm.group(1), pm.group(2).strip()))
        fns.append(Func(header, name, ps, body))
    return fns


LOCAL = re.compile(r"_\d+")


def base_locals(expr):
    return LOCAL.findall(expr)


def analyse(fns, is_source_call, label):
    """returns (clauses, facts, calls): implications as (head, [body]) over var names f#local"""
    by_short = {}
    for f in fns:
        by_short.setdefault(f.name, f)
    clauses = []
    facts = []   # (var, reason)
    calls = []   # (fn, callee_text, dst, args, line)
    for fi, f in enumerate(fns):
        v = lambda l: "f%d%s" % (fi, l)
        # mutable borrows: ref local -> referent local
        mutref = {}
        for m in re.finditer(r"^\s*(_\d+) = &(?:raw )?mut (.*);$", f.body, re.M):
            bl = base_locals(m.group(2))
            if bl:
                mutref[m.group(1)] = bl[0]
        # references returned by calls that received a &mut argument alias that argument's referent
        # (e.g. `_a = <Vec<u64> as IndexMut<usize>>::index_mut(move _r, _k)` with `_r = &mut (*_1).values`)
        for _round in range(3):
            for m in re.finditer(r"^\s*(_\d+) = (.+?)\((.*)\) -> \[return: bb\d+", f.body, re.M):
                dst = m.group(1)
                if not f.types.get(dst, "").startswith("&"):
                    continue
                for a in base_locals(m.group(3)):
                    if a in mutref and dst not in mutref:
                        mutref[dst] = mutref[a]
            for m in re.finditer(r"^\s*(_\d+) = &(?:raw )?mut \(\*(_\d+)\)", f.body, re.M):
                if m.group(2) in mutref and m.group(1) not in mutref:
                    mutref[m.group(1)] = mutref[m.group(2)]
            for m in re.finditer(r"^\s*(_\d+) = (?:move|copy) (_\d+);$", f.body, re.M):
                if m.group(2) in mutref and m.group(1) not in mutref:
                    mutref[m.group(1)] = mutref[m.group(2)]
        for line in f.body.splitlines():
            l = line.strip()
            if not l or l.startswith(("StorageLive", "StorageDead", "debug ", "let ", "scope ", "bb", "}", "//", "nop", "FakeRead", "PlaceMention", "Retag", "Coverage")):
                continue
            m = re.match(r"^(.*?) = (.+?)\((.*)\) -> \[return: (bb\d+)(?:, unwind[^\]]*)?\];$", l)
            if m and not l.startswith("assert(") and not l.startswith("drop("):
                dst, callee, args = m.group(1), m.group(2), m.group(3)
                d = base_locals(dst)
                if not d:
                    continue
                d = d[0]
                arg_locals = base_locals(args)
                calls.append((fi, callee, d, arg_locals, l))
                if is_source_call(callee, args, f):
                    facts.append((v(d), "%s: %s" % (f.name, l[:200])))
                for a in arg_locals:
                    clauses.append((v(d), [v(a)]))
                    if a in mutref:
                        clauses.append((v(d), [v(mutref[a])]))
                # callee may write through &mut arguments
                for a in arg_locals:
                    if a in mutref:
                        tgt = mutref[a]
                        for b in arg_locals:
                            if b != a:
                                clauses.append((v(tgt), [v(b)]))
                                if b in mutref:
                                    clauses.append((v(tgt), [v(mutref[b])]))
                        if is_source_call(callee, args, f):
                            facts.append((v(tgt), "%s: %s" % (f.name, l[:200])))
                continue
            m = re.match(r"^(.*?) = (.*);$", l)
            if m:
                dst, rhs = m.group(1), m.group(2)
                d = base_locals(dst)
                if not d:
                    continue
                d0 = d[0]
                srcs = base_locals(rhs)
                # an aggregate does not become "different" because it embeds a generator object
                for s in srcs:
                    if RNG_TYPES.search(f.types.get(s, "")) and not rhs.startswith(("copy", "move")):
                        continue
                    clauses.append((v(d0), [v(s)]))
                # writing through a mutable reference / deref: the referent changes
                if dst.strip().startswith("(*") and d0 in mutref:
                    for s in srcs:
                        clauses.append((v(mutref[d0]), [v(s)]))
                # index locals of the place also matter
                for extra in d[1:]:
                    clauses.append((v(d0), [v(extra)]))
                if re.search(r"as \*const|as \*mut", rhs) and re.search(r"as usize|as u64", rhs):
                    facts.append((v(d0), "%s: address used as integer: %s" % (f.name, l[:160])))
                continue
    # inter-procedural edges between crate functions (matched by the full path text)
    name_index = {}
    for gi, g in enumerate(fns):
        name_index.setdefault(g.short, []).append(gi)
    for fi, callee, d, arg_locals, l in calls:
        short = re.sub(r"::<.*$", "", callee).split("::")[-1]
        cands = name_index.get(short, [])
        for gi in cands:
            g = fns[gi]
            # require the type/impl name to appear in the call text to limit false matches
            tyname = None
            mq = re.match(r"^<\s*&?(?:mut )?(\w+)", callee.strip())
            if mq:
                tyname = mq.group(1)           # <Type<..> as Trait>::name  ->  Type
            else:
                mm = re.search(r"(\w+)(?:::<[^>]*>)?::%s" % re.escape(short), callee)
                if mm:
                    tyname = mm.group(1)       # path::Type::<..>::name  ->  Type
            if tyname is None:
                # a free function: only crate functions that are not methods can be meant
                if "impl at" in g.name or "::" not in callee and g.name.split("::")[-1] != short:
                    continue
            elif tyname not in ("Self",):
                # e.g. Vec::new vs SuperMinHash::new: the type must occur in the callee's signature
                if not re.search(r"\b%s\b" % re.escape(tyname), g.header):
                    continue
            clauses.append(("f%d%s" % (fi, d), ["f%d_0" % gi]))
            for (pl, pt), a in zip(g.params, arg_locals):
                clauses.append(("f%d%s" % (gi, pl), ["f%d%s" % (fi, a)]))
    return clauses, facts


def entailed(clauses, facts, sink, work, tag):
    """is `sink` true in every model of facts /\\ clauses ?  (unsat of the negation)"""
    names = set([sink])
    for h, b in clauses:
        names.add(h)
        names.update(b)
    for fct, _ in facts:
        names.add(fct)
    lines = ["(set-logic QF_UF)"]
    for n in sorted(names):
        lines.append("(declare-const %s Bool)" % n)
    for fct, _ in facts:
        lines.append("(assert %s)" % fct)
    for h, b in clauses:
        lines.append("(assert (=> %s %s))" % (b[0] if len(b) == 1 else "(and %s)" % " ".join(b), h))
    lines.append("(assert (not %s))" % sink)
    lines.append("(check-sat)")
    path = os.path.join(work, tag + ".smt2")
    with open(path, "w") as f:
        f.write("\n".join(lines) + "\n")
    answers = []
    for nm, cmd in (("z3-4.8.12", ["/usr/bin/z3", "-smt2"]), ("cvc5-1.0", ["cvc5", "--lang", "smt2"])):
        t0 = time.time()
        try:
            p = subprocess.run(cmd + [path], stdout=subprocess.PIPE, stderr=subprocess.STDOUT, text=True, timeout=120)
            out = p.stdout.strip()
        except subprocess.TimeoutExpired:
            out = "timeout"
        first = out.splitlines()[0] if out else ""
        ans = "error" if "(error" in out else (first if first in ("sat", "unsat") else "unknown")
        answers.append({"solver": nm, "answer": ans, "secs": round(time.time() - t0, 3)})
    ds = set(a["answer"] for a in answers)
    if ds == {"unsat"}:
        verdict = "entailed"
    elif ds == {"sat"}:
        verdict = "not-entailed"
    else:
        verdict = "inconclusive"
    return verdict, answers


def explain(clauses, facts, sink):
    """shortest derivation of the sink from a fact (for the report)"""
    from collections import deque
    rev = {}
    for h, b in clauses:
        for x in b:
            rev.setdefault(x, []).append(h)
    start = {f: r for f, r in facts}
    prev = {}
    dq = deque(start.keys())
    seen = set(start.keys())
    while dq:
        x = dq.popleft()
        if x == sink:
            break
        for h in rev.get(x, []):
            if h not in seen:
                seen.add(h)
                prev[h] = x
                dq.append(h)
    if sink not in seen:
        return None
    path = [sink]
    while path[-1] in prev:
        path.append(prev[path[-1]])
    path.reverse()
    return path, start.get(path[0])
