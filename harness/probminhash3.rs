//! Kani harnesses for `crate::probminhasher::probminhash3` (child module: private fields visible).
use super::*;
#[allow(unused_imports)]
use crate::verif_common::*;
use crate::exp01::verif_kani as expk;
use crate::maxvaluetrack::verif_kani as mvk;
use crate::superminhasher::NoHashHasher;
use rand_xoshiro::Xoshiro256PlusPlus as Xo;

pub(crate) type Pmh3 = ProbMinHash3<u64, NoHashHasher>;
pub(crate) type Pmh3a = ProbMinHash3a<u64, NoHashHasher>;

/// sampler instance used in the ProbMinHash3 harnesses: the real `ExpRestricted01` code with c1 == 1
/// (the lambda -> 0 limit): its fast path `x = c1 * u < 1` is then always taken, i.e. one generator draw
/// per sample and no rejection loop.  What ProbMinHash3 needs from the sampler - a value of [0,1) that is
/// a function of the item's stream - is exactly that; the rejection loop itself is checked under C16.
/// (`#[kani::stub]` cannot replace it: generic trait methods are not stubbable in Kani 0.68.)
pub(crate) fn unit_sampler() -> ExpRestricted01 {
    expk::literal(1.0e-9, 1.0, 0.5, 1.0)
}

/// arbitrary state: tracker satisfying its invariant (C15), arbitrary signature
pub(crate) fn any_pmh3<const M: usize>() -> Pmh3 {
    let mut sig = Vec::with_capacity(M);
    for _ in 0..M {
        sig.push(kani::any::<u64>());
    }
    ProbMinHash3 {
        m: M,
        b_hasher: BuildHasherDefault::<NoHashHasher>::default(),
        maxvaluetracker: mvk::any_tracker_f64(M),
        exp01: unit_sampler(),
        signature: sig,
    }
}

/// a positive weight that is a power of two, 2^e with e symbolic in -40..=40 (keeps the float products
/// cheap: the mantissa of 1/w is constant); other weights are separate harness instances
pub(crate) fn any_pow2_weight() -> f64 {
    let e: i64 = kani::any();
    kani::assume(e >= -40 && e <= 40);
    f64::from_bits(((1023 + e) as u64) << 52)
}

/// C02 step lemma for ProbMinHash3::hash_item.  N = number of points of the item that are modelled;
/// states are restricted to those where the item's race is over within N points (max register <= N/w).
fn c02_pmh3_step<const M: usize, const N: usize>(weight: f64) {
    let mut s = any_pmh3::<M>();
    let mut reg = [0f64; M];
    let mut sig = [0u64; M];
    for p in 0..M {
        reg[p] = s.maxvaluetracker.get_value(p);
        sig[p] = s.signature[p];
    }
    let winv = 1. / weight;
    let qmax0 = s.maxvaluetracker.get_max_value();
    kani::assume(qmax0 <= winv * N as f64);
    let id: u64 = kani::any();
    // ---- the real call
    s.hash_item(id, &weight);
    // ---- reference: the first N points of the item, no stop rule, same stream, same order (exp, slot, exp, slot ...)
    let mut rng = Xo::seed_from_u64(nohash(id));
    let unif0m = Uniform::<usize>::new(0, M).unwrap();
    let e01 = unit_sampler();
    let mut best = [f64::INFINITY; M];
    for i in 1..(N + 1) {
        let x = e01.sample(&mut rng);
        let h = if i == 1 { winv * x } else { winv * (i - 1) as f64 + winv * x };
        let k = unif0m.sample(&mut rng);
        for p in 0..M {
            if p == k && h < best[p] {
                best[p] = h;
            }
        }
    }
    // ---- registers are exact position-wise minima; the signature follows the strict minimum
    for p in 0..M {
        let r = s.maxvaluetracker.get_value(p);
        assert!(r == fmin(reg[p], best[p]));
        if best[p] < reg[p] {
            assert!(s.signature[p] == id);
        } else {
            assert!(s.signature[p] == sig[p]);
        }
    }
    assert!(mvk::tracker_inv_f64(&s.maxvaluetracker));
    assert!(s.m == M && s.signature.len() == M);
    kani::cover!(s.signature[0] == id && sig[0] != id && (M < 2 || s.signature[M - 1] == sig[M - 1]), "witness: one position taken, another kept");
    kani::cover!(s.signature[0] == id && s.signature[M - 1] == id && sig[0] != id && sig[M - 1] != id, "witness: two positions taken");
}

macro_rules! p3_proof {
    ($name:ident, $unw:expr, $body:expr) => {
        #[kani::proof]
        #[kani::unwind($unw)]
        fn $name() {
            $body
        }
    };
}
p3_proof!(c02_pmh3_step_m2_n2_w1, 5, c02_pmh3_step::<2, 2>(1.0));
p3_proof!(c02_pmh3_step_m2_n3_w1, 6, c02_pmh3_step::<2, 3>(1.0));
p3_proof!(c02_pmh3_step_m3_n4_w1, 7, c02_pmh3_step::<3, 4>(1.0));
p3_proof!(c02_pmh3_step_m2_n3, 6, c02_pmh3_step::<2, 3>(any_pow2_weight()));
p3_proof!(c02_pmh3_step_m3_n4, 7, c02_pmh3_step::<3, 4>(any_pow2_weight()));
p3_proof!(c02_pmh3_step_m4_n5, 8, c02_pmh3_step::<4, 5>(any_pow2_weight()));
p3_proof!(c02_pmh3_step_m2_n3_w3, 6, c02_pmh3_step::<2, 3>(3.0));
p3_proof!(c02_pmh3_step_m3_n4_w07, 7, c02_pmh3_step::<3, 4>(0.7));

// =====================================================================================
// C02 — ProbMinHash3 == ProbMinHash3a on the same weighted set (fresh sketchers, shared oracle)
// NOT REGISTERED: neither the two-item nor the one-item variant left symbolic execution (IndexMap/hashbrown)
// within 90 min; kept for reference.  3 == 3a is stated as not decided.
// =====================================================================================
// Item labels are concrete (the per-item generator is an oracle keyed by the label's hash, so labels only
// need to be distinct); weights are powers of two; every generator output is symbolic.  Races that are not
// over within the unwinding bound are cut (--no-unwinding-checks), as in the step lemma.
fn c02_3_vs_3a<const M: usize>(w1: f64, w2: f64) {
    let mut a = Pmh3 {
        m: M,
        b_hasher: BuildHasherDefault::<NoHashHasher>::default(),
        maxvaluetracker: MaxValueTracker::new(M),
        exp01: unit_sampler(),
        signature: vec![0u64; M],
    };
    let mut b = Pmh3a {
        m: M,
        b_hasher: BuildHasherDefault::<NoHashHasher>::default(),
        maxvaluetracker: MaxValueTracker::new(M),
        exp01: unit_sampler(),
        to_be_processed: Vec::new(),
        signature: vec![0u64; M],
    };
    let mut map: IndexMap<u64, f64, BuildHasherDefault<fnv::FnvHasher>> = IndexMap::with_hasher(Default::default());
    map.insert(11u64, w1);
    map.insert(22u64, w2);
    a.hash_item(11u64, &w1);
    a.hash_item(22u64, &w2);
    b.hash_weigthed_idxmap(&map);
    for p in 0..M {
        assert!(a.get_signature()[p] == b.get_signature()[p]);
        assert!(beq(a.maxvaluetracker.get_value(p), b.maxvaluetracker.get_value(p)));
        assert!(a.get_signature()[p] == 11 || a.get_signature()[p] == 22);
    }
    kani::cover!(a.get_signature()[0] != a.get_signature()[M - 1], "witness: both items present");
    std::mem::forget(map);
}

#[kani::proof]
#[kani::unwind(12)]
fn c02_pmh3_vs_3a_m2() {
    c02_3_vs_3a::<2>(1.0, 2.0);
}

/// one-item variant: cheaper, weight = any power of two down to 2^-80 (catches entry-point differences that
/// depend on the weight only)
fn c02_3_vs_3a_one<const M: usize>() {
    let e: i64 = kani::any();
    kani::assume(e >= -80 && e <= 40);
    let w = f64::from_bits(((1023 + e) as u64) << 52);
    let mut a = Pmh3 {
        m: M,
        b_hasher: BuildHasherDefault::<NoHashHasher>::default(),
        maxvaluetracker: MaxValueTracker::new(M),
        exp01: unit_sampler(),
        signature: vec![0u64; M],
    };
    let mut b = Pmh3a {
        m: M,
        b_hasher: BuildHasherDefault::<NoHashHasher>::default(),
        maxvaluetracker: MaxValueTracker::new(M),
        exp01: unit_sampler(),
        to_be_processed: Vec::new(),
        signature: vec![0u64; M],
    };
    let mut map: IndexMap<u64, f64, BuildHasherDefault<fnv::FnvHasher>> = IndexMap::with_hasher(Default::default());
    map.insert(11u64, w);
    a.hash_item(11u64, &w);
    b.hash_weigthed_idxmap(&map);
    for p in 0..M {
        assert!(a.get_signature()[p] == b.get_signature()[p]);
        assert!(beq(a.maxvaluetracker.get_value(p), b.maxvaluetracker.get_value(p)));
    }
    kani::cover!(a.get_signature()[0] == 11 && a.get_signature()[M - 1] == 11, "witness: the item filled the signature");
    std::mem::forget(map);
}

#[kani::proof]
#[kani::unwind(12)]
fn c02_pmh3_vs_3a_one_m2() {
    c02_3_vs_3a_one::<2>();
}
