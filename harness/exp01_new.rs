//! Kani harnesses for `crate::exp01` that do NOT depend on the field layout of `ExpRestricted01`:
//! they only use `ExpRestricted01::new(lambda)` and `Distribution::sample`.  This module is mounted ALONE
//! (isolated scratch copy, see ISO_MOUNTS in lib/pmhv.py) so that a change of the struct's fields, which stops
//! the struct-literal helper of exp01.rs (and with it every other harness module) from compiling, still gets a verdict.
use super::*;
#[allow(unused_imports)]
use crate::verif_common::*;
use rand::SeedableRng;
use rand_xoshiro::Xoshiro256PlusPlus as Xo;

// =====================================================================================
// C16 — the same support clause on samplers built by the REAL constructor `new(lambda)` (so that the check
// does not depend on the field layout of the struct).  exp_m1 / exp / ln are replaced by tables holding the
// libm values of exactly the arguments `new` passes for lambda = ln(m/(m-1)), m = 2, 3, 5 (computed natively);
// any other argument gets an arbitrary value (that only concerns the last accept test of `sample`).
// =====================================================================================
pub(crate) fn exp_m1_table(x: f64) -> f64 {
    if x == 0.6931471805599453 {
        1.0
    } else if x == 0.4054651081081644 {
        0.5
    } else if x == 0.22314355131420976 {
        0.25
    } else {
        kani::any()
    }
}
pub(crate) fn exp_table(x: f64) -> f64 {
    if x == -0.6931471805599453 {
        0.5
    } else if x == -0.4054651081081644 {
        0.6666666666666666
    } else if x == -0.22314355131420976 {
        0.8
    } else {
        let r: f64 = kani::any();
        kani::assume(r > 0.0 && r.is_finite());
        r
    }
}
pub(crate) fn ln_table(x: f64) -> f64 {
    if x == 1.3333333333333333 {
        0.28768207245178085
    } else if x == 1.2000000000000002 {
        0.1823215567939548
    } else if x == 1.1111111111111112 {
        0.10536051565782635
    } else {
        let r: f64 = kani::any();
        kani::assume(!r.is_nan());
        r
    }
}

fn c16_support_new(lambda: f64) {
    let e = ExpRestricted01::new(lambda);
    let mut rng = Xo::seed_from_u64(kani::any());
    let x = e.sample(&mut rng);
    assert!(x >= 0.0 && x < 1.0);
    kani::cover!(rng.consumed() >= 3, "witness: slow path");
    kani::cover!(rng.consumed() == 1, "witness: fast path");
}

macro_rules! c16_new_proof {
    ($name:ident, $lambda:expr) => {
        #[kani::proof]
        #[kani::stub(f64::exp_m1, exp_m1_table)]
        #[kani::stub(f64::exp, exp_table)]
        #[kani::stub(f64::ln, ln_table)]
        #[kani::unwind(2)]
        fn $name() {
            c16_support_new($lambda);
        }
    };
}
c16_new_proof!(c16_support_new_m2, 0.6931471805599453);
c16_new_proof!(c16_support_new_m3, 0.4054651081081644);
c16_new_proof!(c16_support_new_m5, 0.22314355131420976);

// =====================================================================================
// C16 — real constructor with a SYMBOLIC first constant: lambda = 1, exp_m1(1) replaced by an arbitrary v in [1, 1e6]
// (so c1 = v / 1 is symbolic and whatever else `new` derives from exp_m1 - an inverse, say - is derived by the real
// code), exp -> arbitrary value in (0, 1], ln -> arbitrary non-NaN value.  Rounding defects of the first acceptance
// test that only occur for some lambda are reachable here; a counterexample is a candidate that the native search with
// the real libm over a grid of lambda must confirm.
// =====================================================================================
pub(crate) fn exp_m1_anyc1(x: f64) -> f64 {
    if x == 1.0 {
        any_f64_in(1.0, 1.0e6)
    } else {
        kani::any()
    }
}
pub(crate) fn exp_unit(_x: f64) -> f64 {
    let r: f64 = kani::any();
    kani::assume(r > 0.0 && r <= 1.0);
    r
}
pub(crate) fn ln_any(_x: f64) -> f64 {
    let r: f64 = kani::any();
    kani::assume(!r.is_nan());
    r
}

#[kani::proof]
#[kani::stub(f64::exp_m1, exp_m1_anyc1)]
#[kani::stub(f64::exp, exp_unit)]
#[kani::stub(f64::ln, ln_any)]
#[kani::unwind(2)]
fn c16_support_new_anyc1() {
    let e = ExpRestricted01::new(1.0);
    let mut rng = Xo::seed_from_u64(kani::any());
    let x = e.sample(&mut rng);
    assert!(x >= 0.0 && x < 1.0);
    kani::cover!(rng.consumed() >= 3, "witness: slow path");
    kani::cover!(rng.consumed() == 1, "witness: fast path");
}
