//! helpers shared by all Kani harness modules (compiled only under cfg(kani),
//! in the scratch copy of the repository; see /verif/DESIGN.md 0)
#![allow(dead_code)]

/// arbitrary f64 that is not a NaN
pub fn any_f64_nonnan() -> f64 {
    let x: f64 = kani::any();
    kani::assume(!x.is_nan());
    x
}

/// arbitrary finite f64
pub fn any_f64_finite() -> f64 {
    let x: f64 = kani::any();
    kani::assume(x.is_finite());
    x
}

/// arbitrary f64 in [lo, hi]
pub fn any_f64_in(lo: f64, hi: f64) -> f64 {
    let x: f64 = kani::any();
    kani::assume(x >= lo && x <= hi);
    x
}

pub fn any_f32_nonnan() -> f32 {
    let x: f32 = kani::any();
    kani::assume(!x.is_nan());
    x
}

/// arbitrary usize < n
pub fn any_below(n: usize) -> usize {
    let x: usize = kani::any();
    kani::assume(x < n);
    x
}

#[inline]
pub fn fmin(a: f64, b: f64) -> f64 {
    if b < a {
        b
    } else {
        a
    }
}

#[inline]
pub fn fmax(a: f64, b: f64) -> f64 {
    if b > a {
        b
    } else {
        a
    }
}

/// bit equality of floats (distinguishes -0.0 / 0.0, equal NaN payloads are equal)
#[inline]
pub fn beq(a: f64, b: f64) -> bool {
    a.to_bits() == b.to_bits()
}

/// environment stub: `anyhow!` captures a `std::backtrace::Backtrace` (reads the environment, walks
/// the stack, demangles); irrelevant to every property and enormous for symbolic execution
pub fn no_backtrace() -> std::backtrace::Backtrace {
    std::backtrace::Backtrace::disabled()
}

/// turn an `anyhow::Result` into an `Option` without ever running the drop glue of `anyhow::Error`
/// (its backtrace frames are a symbolic-length heap structure: thousands of unwinding steps)
#[inline(never)]
pub fn strip<T>(r: anyhow::Result<T>) -> Option<T> {
    match r {
        Ok(x) => Some(x),
        Err(e) => {
            std::mem::forget(e);
            None
        }
    }
}

// ---------------------------------------------------------------------------------------------
// libm stubs: memoised arbitrary functions constrained by the contract the properties need
// ---------------------------------------------------------------------------------------------
pub mod mono {
    //! a memoised, monotone non-decreasing, NaN-free model of a real function on [0, +inf]:
    //! equal arguments give equal results, larger arguments give results that are not smaller.
    //! Used for `f64::ln` (C04 SetSketch step): nothing else about `ln` matters for register updates
    //! except that it is a non-decreasing function of its argument.
    pub const CAP: usize = 8;
    pub static mut N: usize = 0;
    pub static mut ARG: [f64; CAP] = [0.0; CAP];
    pub static mut RES: [f64; CAP] = [0.0; CAP];

    pub fn call(x: f64) -> f64 {
        unsafe {
            let r: f64 = kani::any();
            kani::assume(!r.is_nan());
            // sign contract of ln around 1 (needed for "x > 1 => register 0"): ln(x) <= 0 iff x <= 1
            kani::assume((x > 1.0) == (r > 0.0));
            macro_rules! consistent {
                ($i:expr) => {
                    if $i < N {
                        if ARG[$i] == x {
                            return RES[$i];
                        }
                        if ARG[$i] < x {
                            kani::assume(RES[$i] <= r);
                        }
                        if ARG[$i] > x {
                            kani::assume(RES[$i] >= r);
                        }
                    }
                };
            }
            consistent!(0);
            consistent!(1);
            consistent!(2);
            consistent!(3);
            consistent!(4);
            consistent!(5);
            consistent!(6);
            consistent!(7);
            assert!(N < CAP, "mono stub: table full");
            ARG[N] = x;
            RES[N] = r;
            N += 1;
            r
        }
    }
}

pub fn ln_mono_stub(x: f64) -> f64 {
    mono::call(x)
}


/// the u64 that `BuildHasherDefault<NoHashHasher>::hash_one(&item)` produces (the real hasher is
/// called: on a little-endian target it is the byte-swapped item, not the item itself)
pub fn nohash(item: u64) -> u64 {
    use std::hash::BuildHasher;
    std::hash::BuildHasherDefault::<crate::superminhasher::NoHashHasher>::default().hash_one(&item)
}

/// environment stub: dropping an `anyhow::Error` walks its (symbolic-length) backtrace frames; errors are
/// leaked instead (no property depends on freeing an error value)
pub fn anyhow_drop_noop(_e: &mut ::anyhow::Error) {}
