//! helpers shared by all Kani harness modules (compiled only under cfg(kani),
//! in the scratch copy of the repository; see /verif/DESIGN.md 0)
#![allow(dead_code)]

/// arbitrary f64 that is not a NaN
pub fn any_f64_nonnan() -> f64 {
    let x: f64 = kani::any();
    kani::assume(!x.is_nan());
    x
}

/// arbitrary finite f64
pub fn any_f64_finite() -> f64 {
    let x: f64 = kani::any();
    kani::assume(x.is_finite());
    x
}

/// arbitrary f64 in [lo, hi]
pub fn any_f64_in(lo: f64, hi: f64) -> f64 {
    let x: f64 = kani::any();
    kani::assume(x >= lo && x <= hi);
    x
}

pub fn any_f32_nonnan() -> f32 {
    let x: f32 = kani::any();
    kani::assume(!x.is_nan());
    x
}

/// arbitrary usize < n
pub fn any_below(n: usize) -> usize {
    let x: usize = kani::any();
    kani::assume(x < n);
    x
}

#[inline]
pub fn fmin(a: f64, b: f64) -> f64 {
    if b < a {
        b
    } else {
        a
    }
}

#[inline]
pub fn fmax(a: f64, b: f64) -> f64 {
    if b > a {
        b
    } else {
        a
    }
}

/// bit equality of floats (distinguishes -0.0 / 0.0, equal NaN payloads are equal)
#[inline]
pub fn beq(a: f64, b: f64) -> bool {
    a.to_bits() == b.to_bits()
}

/// environment stub: `anyhow!` captures a `std::backtrace::Backtrace` (reads the environment, walks
/// the stack, demangles); irrelevant to every property and enormous for symbolic execution
pub fn no_backtrace() -> std::backtrace::Backtrace {
    std::backtrace::Backtrace::disabled()
}

/// turn an `anyhow::Result` into an `Option` without ever running the drop glue of `anyhow::Error`
/// (its backtrace frames are a symbolic-length heap structure: thousands of unwinding steps)
#[inline(never)]
pub fn strip<T>(r: anyhow::Result<T>) -> Option<T> {
    match r {
        Ok(x) => Some(x),
        Err(e) => {
            std::mem::forget(e);
            None
        }
    }
}
