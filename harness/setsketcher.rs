//! Kani harnesses for `crate::setsketcher` (child module: private fields visible).
use super::*;
#[allow(unused_imports)]
use crate::verif_common::*;
use crate::fyshuffle::verif_kani as fyk;
use crate::superminhasher::NoHashHasher;

pub(crate) type Ss16 = SetSketcher<u16, u64, NoHashHasher>;
pub(crate) type Ss32 = SetSketcher<u32, u64, NoHashHasher>;

pub(crate) fn params(b: f64, m: u64, a: f64, q: u64) -> SetSketchParams {
    SetSketchParams::new(b, m, a, q)
}

/// a sketcher built by a literal (avoids `ln_1p` of the constructor when it is not the subject):
/// `lnb` is an arbitrary positive finite number standing for ln(b)
pub(crate) fn literal_ss<I: Integer + Bounded + ToPrimitive + FromPrimitive + Copy + Clone + std::fmt::Debug>(
    b: f64, m: usize, a: f64, q: u64, lnb: f64,
) -> SetSketcher<I, u64, NoHashHasher> {
    SetSketcher::<I, u64, NoHashHasher> {
        _b: b,
        m: m as u64,
        a,
        q,
        k_vec: (0..m).map(|_| I::zero()).collect(),
        lower_k: 0.,
        nbmin: 0,
        permut_generator: FYshuffle::new(m),
        nb_overflow: 0,
        lnb,
        b_hasher: BuildHasherDefault::<NoHashHasher>::default(),
        t_marker: PhantomData,
    }
}

// =====================================================================================
// C13 — reinit() from arbitrary content == new(params)
// =====================================================================================

fn c13_reinit_ss<const M: usize>() {
    let b = any_f64_in(1.0000001, 2.0);
    let a = any_f64_in(1.0e-3, 1.0e6);
    let q: u64 = kani::any();
    let lnb = any_f64_in(1.0e-8, 0.7);
    let mut s: Ss16 = literal_ss(b, M, a, q, lnb);
    for i in 0..M {
        s.k_vec[i] = kani::any();
    }
    s.lower_k = kani::any();
    s.nbmin = kani::any();
    s.nb_overflow = kani::any();
    s.permut_generator = fyk::garbage_shuffle(M);
    s.reinit();
    // exhaustive pattern: a new field breaks compilation instead of being skipped
    let SetSketcher { _b, m, a: a2, q: q2, k_vec, lower_k, nbmin, permut_generator, nb_overflow, lnb: lnb2, b_hasher: _, t_marker: _ } = &s;
    assert!(beq(*_b, b) && *m == M as u64 && beq(*a2, a) && *q2 == q && beq(*lnb2, lnb));
    assert!(k_vec.len() == M);
    for i in 0..M {
        assert!(k_vec[i] == 0);
    }
    assert!(beq(*lower_k, 0.) && *nbmin == 0 && *nb_overflow == 0);
    assert!(fyk::is_fresh(permut_generator, M));
    kani::cover!(true, "witness");
}

/// the state built by `new` is the documented fresh state (ln_1p stubbed: only its result field is affected)
fn c13_new_ss<const M: usize>() {
    let b = any_f64_in(1.0000001, 2.0);
    let a = any_f64_in(1.0e-3, 1.0e6);
    let q: u64 = kani::any();
    let n: Ss16 = SetSketcher::new(params(b, M as u64, a, q), BuildHasherDefault::<NoHashHasher>::default());
    assert!(beq(n._b, b) && n.m == M as u64 && beq(n.a, a) && n.q == q);
    assert!(n.k_vec.len() == M);
    for i in 0..M {
        assert!(n.k_vec[i] == 0);
    }
    assert!(beq(n.lower_k, 0.) && n.nbmin == 0 && n.nb_overflow == 0);
    assert!(fyk::is_fresh(&n.permut_generator, M));
    kani::cover!(true, "witness");
}

pub(crate) fn ln_1p_stub(x: f64) -> f64 {
    // arbitrary finite positive value for positive argument (only stored, never compared here)
    let r: f64 = kani::any();
    kani::assume(r.is_finite() && (x <= 0.0 || r > 0.0));
    r
}

#[kani::proof]
#[kani::unwind(5)]
fn c13_ss_reinit_m2() {
    c13_reinit_ss::<2>();
}
#[kani::proof]
#[kani::unwind(6)]
fn c13_ss_reinit_m3() {
    c13_reinit_ss::<3>();
}
#[kani::proof]
#[kani::unwind(8)]
fn c13_ss_reinit_m5() {
    c13_reinit_ss::<5>();
}
#[kani::proof]
#[kani::stub(f64::ln_1p, ln_1p_stub)]
#[kani::unwind(6)]
fn c13_ss_new_m3() {
    c13_new_ss::<3>();
}
