//! Kani harnesses for `crate::setsketcher` (child module: private fields visible).
use super::*;
#[allow(unused_imports)]
use crate::verif_common::*;
use crate::fyshuffle::verif_kani as fyk;
use crate::superminhasher::NoHashHasher;

pub(crate) type Ss16 = SetSketcher<u16, u64, NoHashHasher>;
pub(crate) type Ss32 = SetSketcher<u32, u64, NoHashHasher>;

pub(crate) fn params(b: f64, m: u64, a: f64, q: u64) -> SetSketchParams {
    SetSketchParams::new(b, m, a, q)
}

/// a sketcher built by a literal (avoids `ln_1p` of the constructor when it is not the subject):
/// `lnb` is an arbitrary positive finite number standing for ln(b)
pub(crate) fn literal_ss<I: Integer + Bounded + ToPrimitive + FromPrimitive + Copy + Clone + std::fmt::Debug>(
    b: f64, m: usize, a: f64, q: u64, lnb: f64,
) -> SetSketcher<I, u64, NoHashHasher> {
    SetSketcher::<I, u64, NoHashHasher> {
        _b: b,
        m: m as u64,
        a,
        q,
        k_vec: (0..m).map(|_| I::zero()).collect(),
        lower_k: 0.,
        nbmin: 0,
        permut_generator: FYshuffle::new(m),
        nb_overflow: 0,
        lnb,
        b_hasher: BuildHasherDefault::<NoHashHasher>::default(),
        t_marker: PhantomData,
    }
}

// =====================================================================================
// C13 — reinit() from arbitrary content == new(params)
// =====================================================================================

fn c13_reinit_ss<const M: usize>() {
    let b = any_f64_in(1.0000001, 2.0);
    let a = any_f64_in(1.0e-3, 1.0e6);
    let q: u64 = kani::any();
    let lnb = any_f64_in(1.0e-8, 0.7);
    let mut s: Ss16 = literal_ss(b, M, a, q, lnb);
    for i in 0..M {
        s.k_vec[i] = kani::any();
    }
    s.lower_k = kani::any();
    s.nbmin = kani::any();
    s.nb_overflow = kani::any();
    s.permut_generator = fyk::garbage_shuffle(M);
    s.reinit();
    // exhaustive pattern: a new field breaks compilation instead of being skipped
    let SetSketcher { _b, m, a: a2, q: q2, k_vec, lower_k, nbmin, permut_generator, nb_overflow, lnb: lnb2, b_hasher: _, t_marker: _ } = &s;
    assert!(beq(*_b, b) && *m == M as u64 && beq(*a2, a) && *q2 == q && beq(*lnb2, lnb));
    assert!(k_vec.len() == M);
    for i in 0..M {
        assert!(k_vec[i] == 0);
    }
    assert!(beq(*lower_k, 0.) && *nbmin == 0 && *nb_overflow == 0);
    assert!(fyk::is_fresh(permut_generator, M));
    kani::cover!(true, "witness");
}

/// the state built by `new` is the documented fresh state (ln_1p stubbed: only its result field is affected)
fn c13_new_ss<const M: usize>() {
    let b = any_f64_in(1.0000001, 2.0);
    let a = any_f64_in(1.0e-3, 1.0e6);
    let q: u64 = kani::any();
    let n: Ss16 = SetSketcher::new(params(b, M as u64, a, q), BuildHasherDefault::<NoHashHasher>::default());
    assert!(beq(n._b, b) && n.m == M as u64 && beq(n.a, a) && n.q == q);
    assert!(n.k_vec.len() == M);
    for i in 0..M {
        assert!(n.k_vec[i] == 0);
    }
    assert!(beq(n.lower_k, 0.) && n.nbmin == 0 && n.nb_overflow == 0);
    assert!(fyk::is_fresh(&n.permut_generator, M));
    kani::cover!(true, "witness");
}

pub(crate) fn ln_1p_stub(x: f64) -> f64 {
    // arbitrary finite positive value for positive argument (only stored, never compared here)
    let r: f64 = kani::any();
    kani::assume(r.is_finite() && (x <= 0.0 || r > 0.0));
    r
}

#[kani::proof]
#[kani::unwind(5)]
fn c13_ss_reinit_m2() {
    c13_reinit_ss::<2>();
}
#[kani::proof]
#[kani::unwind(6)]
fn c13_ss_reinit_m3() {
    c13_reinit_ss::<3>();
}
#[kani::proof]
#[kani::unwind(8)]
fn c13_ss_reinit_m5() {
    c13_reinit_ss::<5>();
}
#[kani::proof]
#[kani::stub(f64::ln_1p, ln_1p_stub)]
#[kani::unwind(6)]
fn c13_ss_new_m3() {
    c13_new_ss::<3>();
}

// =====================================================================================
// C05 — merge at register level
// =====================================================================================
//
// Representation invariant of a SetSketcher (holds for new/reinit, preserved by sketch and merge):
//   Inv:  lower_k is a non-negative integer-valued f64 and lower_k <= min(k_vec)

pub(crate) fn min_reg<I: Integer + ToPrimitive + Copy>(k: &[I]) -> f64 {
    let mut mn = k[0];
    for i in 1..k.len() {
        if k[i] < mn {
            mn = k[i];
        }
    }
    mn.to_f64().unwrap()
}

/// arbitrary registers and an arbitrary lower bound satisfying Inv
fn any_state_u16<const M: usize>(s: &mut Ss16) {
    for i in 0..M {
        s.k_vec[i] = kani::any();
    }
    let lk: u16 = kani::any();
    kani::assume((lk as f64) <= min_reg(&s.k_vec[..]));
    s.lower_k = lk as f64;
    s.nbmin = kani::any();
    s.nb_overflow = kani::any();
}
fn any_state_u32<const M: usize>(s: &mut Ss32) {
    for i in 0..M {
        s.k_vec[i] = kani::any();
    }
    let lk: u32 = kani::any();
    kani::assume((lk as f64) <= min_reg(&s.k_vec[..]));
    s.lower_k = lk as f64;
    s.nbmin = kani::any();
    s.nb_overflow = kani::any();
}

macro_rules! c05_merge_ok {
    ($fname:ident, $alias:ty, $any_state:ident, $reg:ty) => {
        /// same parameters: position-wise max, commutative, idempotent, Inv kept, overflow counters added
        fn $fname<const M: usize>() {
            let b = any_f64_in(1.0000001, 2.0);
            let a = any_f64_in(1.0e-3, 1.0e6);
            let q: u64 = kani::any();
            let lnb = any_f64_in(1.0e-8, 0.7);
            let mut x: $alias = literal_ss(b, M, a, q, lnb);
            let mut y: $alias = literal_ss(b, M, a, q, lnb);
            $any_state::<M>(&mut x);
            $any_state::<M>(&mut y);
            kani::assume(x.nb_overflow < (1u64 << 62) && y.nb_overflow < (1u64 << 62));
            let mut kx = [<$reg>::MIN; M];
            let mut ky = [<$reg>::MIN; M];
            for i in 0..M {
                kx[i] = x.k_vec[i];
                ky[i] = y.k_vec[i];
            }
            let (lx, ly, ox, oy) = (x.lower_k, y.lower_k, x.nb_overflow, y.nb_overflow);
            // x <- x U y
            let r = strip(x.merge(&y));
            assert!(r.is_some());
            for i in 0..M {
                assert!(x.k_vec[i] == if kx[i] >= ky[i] { kx[i] } else { ky[i] });
                assert!(y.k_vec[i] == ky[i]); // argument untouched
            }
            assert!(x.nb_overflow == ox + oy);
            // Inv is kept: the stale lower bound of the receiver is still a lower bound
            assert!(beq(x.lower_k, lx) && x.lower_k <= min_reg(&x.k_vec[..]));
            assert!(x.get_low_sketch() as f64 <= min_reg(&x.k_vec[..]));
            assert!(x.m == M as u64 && x.q == q && beq(x._b, b) && beq(x.a, a) && beq(x.lnb, lnb));
            // commutative: y' <- y U (old x) has the same registers
            let mut x0: $alias = literal_ss(b, M, a, q, lnb);
            for i in 0..M {
                x0.k_vec[i] = kx[i];
            }
            x0.lower_k = lx;
            let r2 = strip(y.merge(&x0));
            assert!(r2.is_some());
            for i in 0..M {
                assert!(y.k_vec[i] == x.k_vec[i]);
            }
            assert!(beq(y.lower_k, ly) && y.lower_k <= min_reg(&y.k_vec[..]));
            // idempotent: merging the same operand again changes no register
            let r3 = strip(x.merge(&x0));
            assert!(r3.is_some());
            for i in 0..M {
                assert!(x.k_vec[i] == y.k_vec[i]);
            }
            kani::cover!(kx[0] < ky[0] && (M < 2 || kx[1] > ky[1]), "witness: registers taken from both sides");
        }
    };
}
c05_merge_ok!(c05_merge_ok_u16, Ss16, any_state_u16, u16);
c05_merge_ok!(c05_merge_ok_u32, Ss32, any_state_u32, u32);

/// associativity at register level: (x U y) U z == x U (y U z)
fn c05_merge_assoc<const M: usize>() {
    let (b, a, q, lnb) = (1.001, 20.0, 65534u64, 0.001);
    let mut x: Ss16 = literal_ss(b, M, a, q, lnb);
    let mut y: Ss16 = literal_ss(b, M, a, q, lnb);
    let mut z: Ss16 = literal_ss(b, M, a, q, lnb);
    let mut x2: Ss16 = literal_ss(b, M, a, q, lnb);
    for i in 0..M {
        let v: u16 = kani::any();
        x.k_vec[i] = v;
        x2.k_vec[i] = v;
        y.k_vec[i] = kani::any();
        z.k_vec[i] = kani::any();
    }
    // (x U y) U z
    assert!(strip(x.merge(&y)).is_some());
    assert!(strip(x.merge(&z)).is_some());
    // x U (y U z)
    assert!(strip(y.merge(&z)).is_some());
    assert!(strip(x2.merge(&y)).is_some());
    for i in 0..M {
        assert!(x.k_vec[i] == x2.k_vec[i]);
    }
    kani::cover!(true, "witness");
}

/// different parameters: merge is refused and the receiver is bit-identical afterwards
fn c05_merge_refused<const M: usize, const M2: usize>() {
    let b = any_f64_in(1.0000001, 2.0);
    let a = any_f64_in(1.0e-3, 1.0e6);
    let b2 = any_f64_in(1.0000001, 2.0);
    let a2 = any_f64_in(1.0e-3, 1.0e6);
    let q: u64 = kani::any();
    let q2: u64 = kani::any();
    let lnb = any_f64_in(1.0e-8, 0.7);
    let lnb2 = any_f64_in(1.0e-8, 0.7);
    let mut x: Ss16 = literal_ss(b, M, a, q, lnb);
    let mut y: Ss16 = literal_ss(b2, M2, a2, q2, lnb2);
    any_state_u16::<M>(&mut x);
    any_state_u16::<M2>(&mut y);
    let mut kx = [0u16; M];
    for i in 0..M {
        kx[i] = x.k_vec[i];
    }
    let (lx, ox, nx) = (x.lower_k, x.nb_overflow, x.nbmin);
    // "different parameters" in the code's own (documented) sense: m or q differ, or a / b differ by at
    // least one relative epsilon
    let differ = M != M2 || q != q2 || (b - b2).abs() / b >= f64::EPSILON || (a - a2).abs() / a >= f64::EPSILON;
    kani::assume(differ);
    kani::assume(x.nb_overflow < (1u64 << 62) && y.nb_overflow < (1u64 << 62));
    let r = strip(x.merge(&y));
    assert!(r.is_none());
    for i in 0..M {
        assert!(x.k_vec[i] == kx[i]);
    }
    assert!(x.k_vec.len() == M);
    assert!(beq(x.lower_k, lx) && x.nb_overflow == ox && x.nbmin == nx);
    assert!(x.m == M as u64 && x.q == q && beq(x._b, b) && beq(x.a, a) && beq(x.lnb, lnb));
    kani::cover!(M != M2 || (q == q2 && b == b2), "witness: refused because only `a` (or m) differs");
    kani::cover!(M != M2 || (q != q2 && b == b2 && a == a2), "witness: refused because only q (or m) differs");
}

macro_rules! bt_proof {
    ($name:ident, $unw:expr, $body:expr) => {
        #[kani::proof]
        #[kani::stub(std::backtrace::Backtrace::capture, crate::verif_common::no_backtrace)]
        #[kani::stub(<::anyhow::Error as std::ops::Drop>::drop, crate::verif_common::anyhow_drop_noop)]
        #[kani::unwind($unw)]
        fn $name() {
            $body
        }
    };
}
bt_proof!(c05_merge_u16_m2, 5, c05_merge_ok_u16::<2>());
bt_proof!(c05_merge_u16_m3, 6, c05_merge_ok_u16::<3>());
bt_proof!(c05_merge_u16_m5, 8, c05_merge_ok_u16::<5>());
bt_proof!(c05_merge_u32_m3, 6, c05_merge_ok_u32::<3>());
bt_proof!(c05_merge_assoc_m3, 6, c05_merge_assoc::<3>());
bt_proof!(c05_merge_assoc_m4, 7, c05_merge_assoc::<4>());
bt_proof!(c05_merge_refused_m3, 6, c05_merge_refused::<3, 3>());
bt_proof!(c05_merge_refused_m3_m2, 6, c05_merge_refused::<3, 2>());
bt_proof!(c05_merge_refused_m2_m4, 7, c05_merge_refused::<2, 4>());

// =====================================================================================
// C04 / C05 — one SetSketcher::sketch call is the position-wise max with the item's
// unpruned contribution (join lemma), and keeps Inv
// =====================================================================================
use rand_xoshiro::Xoshiro256PlusPlus as Xo;

macro_rules! c04_ss_step {
    ($fname:ident, $alias:ty, $any_state:ident, $reg:ty) => {
        /// `a` and ln(b) are concrete per instance (powers of two in the quick tier): with symbolic a / ln b the
        /// solver has to prove two copies of a 53-bit divider equivalent (reference vs. code) and does not
        /// finish in 40 min; registers, lower bound, counters, q, the item and every generator output stay symbolic
        fn $fname<const M: usize>(a: f64, lnb: f64) {
            let b = lnb.exp();
            let q: u64 = kani::any();
            kani::assume(q < (1u64 << 40));
            let mut s: $alias = literal_ss(b, M, a, q, lnb);
            $any_state::<M>(&mut s);
            kani::assume(s.nbmin < (1u64 << 62) && s.nb_overflow < (1u64 << 62));
            // the shuffle may be in any state left by the previous item: sketch must reset it
            s.permut_generator = fyk::any_shuffle(M);
            let mut old = [<$reg>::MIN; M];
            for i in 0..M {
                old[i] = s.k_vec[i];
            }
            let (l0, ov0) = (s.lower_k, s.nb_overflow);
            let item: u64 = kani::any();
            // ---- the real call
            let r = strip(s.sketch(&item));
            assert!(r.is_some());
            // ---- reference: the item's full, unpruned contribution from the same per-item stream
            let imax = <$reg>::MAX as u64;
            let mut contrib = [0u64; M];
            let mut rng = Xo::seed_from_u64(nohash(item));
            let mut perm = FYshuffle::new(M);
            let inva: f64 = 1. / a;
            let mut x_pred: f64 = 0.;
            let mut nover_ref: u64 = 0;
            for j in 0..M {
                let e: f64 = rng.sample::<f64, Exp1>(Exp1);
                let x_j = x_pred + (inva / (M - j) as f64) * e;
                x_pred = x_j;
                let lb = x_j.ln() / lnb;
                let t = 1. - lb;
                // excluded boundary (stated in the evidence): the float subtraction `1 - lb` rounds *up onto*
                // an integer although the exact value is below it.  Only there do the code's two equivalent
                // pruning tests (`lb > -lower_k` and `k <= lower_k`) disagree, by one unit of k.
                kani::assume(!(t == t.floor() && lb > 1. - t));
                let z: i64 = (q as i64 + 1).min(t.floor() as i64);
                let k = 0.max(z) as u64;
                let i = perm.next(&mut rng);
                for i0 in 0..M {
                    if i == i0 {
                        contrib[i0] = if k > imax { imax } else { k };
                        if k > imax {
                            nover_ref += 1;
                        }
                    }
                }
            }
            // ---- join lemma: every register is max(old, contribution)
            for i in 0..M {
                let c = contrib[i] as $reg;
                assert!(s.k_vec[i] == if c > old[i] { c } else { old[i] });
            }
            // ---- Inv kept, the lower bound never decreases, overflow counter only counts overflows
            assert!(s.lower_k >= l0);
            assert!(s.lower_k <= min_reg(&s.k_vec[..]));
            assert!(s.lower_k == s.lower_k.floor() && s.lower_k >= 0.);
            assert!(s.get_low_sketch() as f64 <= min_reg(&s.k_vec[..]));
            assert!(s.nb_overflow == ov0 + nover_ref);
            assert!(s.m == M as u64 && s.q == q && beq(s._b, b) && beq(s.a, a) && beq(s.lnb, lnb));
            kani::cover!(s.k_vec[0] > old[0] && s.k_vec[M - 1] == old[M - 1], "witness: one register raised, another kept");
            kani::cover!(s.lower_k > l0, "witness: lower bound raised");
        }
    };
}
c04_ss_step!(c04_ss_step_u16, Ss16, any_state_u16, u16);
c04_ss_step!(c04_ss_step_u32, Ss32, any_state_u32, u32);

macro_rules! ss_proof {
    ($name:ident, $unw:expr, $body:expr) => {
        #[kani::proof]
        #[kani::stub(std::backtrace::Backtrace::capture, crate::verif_common::no_backtrace)]
        #[kani::stub(<::anyhow::Error as std::ops::Drop>::drop, crate::verif_common::anyhow_drop_noop)]
        #[kani::stub(f64::ln, crate::verif_common::ln_mono_stub)]
        #[kani::unwind($unw)]
        fn $name() {
            $body
        }
    };
}
ss_proof!(c04_ss_step_u16_m2, 5, c04_ss_step_u16::<2>(16.0, 0.5));
ss_proof!(c04_ss_step_u16_m3, 6, c04_ss_step_u16::<3>(16.0, 0.5));
ss_proof!(c04_ss_step_u16_m2_b1001, 5, c04_ss_step_u16::<2>(20.0, 0.0009995003330835331));
ss_proof!(c04_ss_step_u32_m2, 5, c04_ss_step_u32::<2>(16.0, 0.5));
ss_proof!(c04_ss_step_u32_m3, 6, c04_ss_step_u32::<3>(16.0, 0.5));

// =====================================================================================
// C07 — get_jaccard_bounds returns for every b in (1,2], jac in [0,1]; lo <= hi; lo >= 0; finite
// =====================================================================================

/// `powf` replaced by an arbitrary value inside the enclosure of the true power:
/// for base in (1,2] and exponent in [0, 1/2]:  1 <= base^e <= sqrt(base) (up to 4 ulps)
pub(crate) fn powf_enclosure(base: f64, e: f64) -> f64 {
    let r: f64 = kani::any();
    kani::assume(base > 1.0 && base <= 2.0 && e >= 0.0 && e <= 0.5);
    kani::assume(r >= 1.0 && r <= base.sqrt() * (1.0 + 4.0 * f64::EPSILON));
    // exact end points of the exponent range
    kani::assume(e != 0.0 || r == 1.0);
    r
}

fn c07_bounds(blo: f64, bhi: f64) {
    let b = any_f64_in(blo, bhi);
    let jac = any_f64_in(0.0, 1.0);
    let p = params(b, 4096, 20.0, 65534);
    let (lo, hi) = p.get_jaccard_bounds(jac);
    assert!(lo.is_finite() && hi.is_finite());
    assert!(lo >= 0.0);
    assert!(lo <= hi);
    kani::cover!(jac > 0.99 && lo > 0.5, "witness: near-one collision fraction");
    kani::cover!(jac == 0.0 && hi == 0.0, "witness: zero");
}

macro_rules! c07_proof {
    ($name:ident, $lo:expr, $hi:expr) => {
        #[kani::proof]
        #[kani::stub(f64::powf, powf_enclosure)]
        #[kani::unwind(2)]
        fn $name() {
            c07_bounds($lo, $hi);
        }
    };
}
c07_proof!(c07_bounds_b0, 1.00001, 1.0001);
c07_proof!(c07_bounds_b1, 1.0001, 1.001);
c07_proof!(c07_bounds_b2, 1.001, 1.01);
c07_proof!(c07_bounds_b3, 1.01, 1.1);
c07_proof!(c07_bounds_b4, 1.1, 1.3);
c07_proof!(c07_bounds_b5, 1.3, 1.6);
c07_proof!(c07_bounds_b6, 1.6, 2.0);
c07_proof!(c07_bounds_ball, 1.00001, 2.0);

// =====================================================================================
// C06 — monotonicity clause only: the cardinality estimate never decreases when registers grow
// =====================================================================================

pub(crate) fn ln_1p_const_b1001(_x: f64) -> f64 {
    // ln(1.001), the value for the documented default b (the estimator calls ln_1p(b - 1) per register)
    0.0009995003330835331
}
pub(crate) fn exp_mono_stub(x: f64) -> f64 {
    // memoised monotone non-decreasing, positive and finite on the arguments used here (x <= 0)
    let r = mono_pos::call(x);
    r
}
pub(crate) mod mono_pos {
    pub const CAP: usize = 8;
    pub static mut N: usize = 0;
    pub static mut ARG: [f64; CAP] = [0.0; CAP];
    pub static mut RES: [f64; CAP] = [0.0; CAP];
    pub fn call(x: f64) -> f64 {
        unsafe {
            let r: f64 = kani::any();
            kani::assume(r > 0.0 && r <= 1.0);
            macro_rules! consistent {
                ($i:expr) => {
                    if $i < N {
                        if ARG[$i] == x {
                            return RES[$i];
                        }
                        if ARG[$i] < x {
                            kani::assume(RES[$i] <= r);
                        }
                        if ARG[$i] > x {
                            kani::assume(RES[$i] >= r);
                        }
                    }
                };
            }
            consistent!(0);
            consistent!(1);
            consistent!(2);
            consistent!(3);
            consistent!(4);
            consistent!(5);
            consistent!(6);
            consistent!(7);
            assert!(N < CAP);
            ARG[N] = x;
            RES[N] = r;
            N += 1;
            r
        }
    }
}

fn c06_monotone<const M: usize>() {
    let (b, a, lnb) = (1.001, 20.0, 0.0009995003330835331);
    let mut x: Ss16 = literal_ss(b, M, a, 65534, lnb);
    let mut y: Ss16 = literal_ss(b, M, a, 65534, lnb);
    for i in 0..M {
        x.k_vec[i] = kani::any();
        y.k_vec[i] = kani::any();
        kani::assume(x.k_vec[i] <= y.k_vec[i]);
    }
    let (cx, _) = x.get_cardinal_stats();
    let (cy, _) = y.get_cardinal_stats();
    assert!(cx.is_finite() && cy.is_finite() && cx > 0.0);
    assert!(cx <= cy);
    kani::cover!(cx < cy, "witness: strictly larger estimate");
}

#[kani::proof]
#[kani::stub(f64::ln_1p, ln_1p_const_b1001)]
#[kani::stub(f64::exp, exp_mono_stub)]
#[kani::unwind(4)]
fn c06_monotone_m2() {
    c06_monotone::<2>();
}
#[kani::proof]
#[kani::stub(f64::ln_1p, ln_1p_const_b1001)]
#[kani::stub(f64::exp, exp_mono_stub)]
#[kani::unwind(5)]
fn c06_monotone_m3() {
    c06_monotone::<3>();
}
