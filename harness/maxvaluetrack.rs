//! C15 — Kani harnesses for `MaxValueTracker` (child module of `crate::maxvaluetrack`,
//! so the private fields `m`, `last_index`, `values` are visible).
//!
//! Proof shape: one inductive step from an arbitrary state satisfying the
//! representation invariant
//!     Inv:  for p in m..2m-1 :  values[p] == max(values[2(p-m)], values[2(p-m)+1])
//! The pre-state is *constructed* (leaves arbitrary non-NaN, inner nodes computed),
//! which enumerates exactly the states satisfying Inv.
use super::*;
use crate::verif_common::*;

trait AnyVal: Copy + PartialOrd + MaxValue + std::fmt::Debug {
    fn any_val() -> Self;
}
impl AnyVal for f64 {
    fn any_val() -> f64 {
        any_f64_nonnan()
    }
}
impl AnyVal for f32 {
    fn any_val() -> f32 {
        any_f32_nonnan()
    }
}
impl AnyVal for u16 {
    fn any_val() -> u16 {
        kani::any()
    }
}
impl AnyVal for u64 {
    fn any_val() -> u64 {
        kani::any()
    }
}

fn vmax<V: PartialOrd + Copy>(a: V, b: V) -> V {
    if b > a {
        b
    } else {
        a
    }
}
fn vmin<V: PartialOrd + Copy>(a: V, b: V) -> V {
    if b < a {
        b
    } else {
        a
    }
}

/// arbitrary tracker state satisfying Inv
fn any_tracker<V: AnyVal>(m: usize) -> MaxValueTracker<V> {
    let mut t = MaxValueTracker::<V>::new(m);
    for i in 0..m {
        t.values[i] = V::any_val();
    }
    for p in m..(2 * m - 1) {
        let c = 2 * (p - m);
        t.values[p] = vmax(t.values[c], t.values[c + 1]);
    }
    t
}

fn inv_holds<V: AnyVal>(t: &MaxValueTracker<V>) -> bool {
    let m = t.m;
    let mut ok = t.values.len() == 2 * m - 1 && t.last_index == 2 * m - 2;
    for p in m..(2 * m - 1) {
        let c = 2 * (p - m);
        ok = ok && t.values[p] == vmax(t.values[c], t.values[c + 1]);
    }
    ok
}

fn leaves_max<V: AnyVal>(t: &MaxValueTracker<V>) -> V {
    let mut mx = t.values[0];
    for i in 1..t.m {
        mx = vmax(mx, t.values[i]);
    }
    mx
}

/// the inductive step
fn step<V: AnyVal, const M: usize>() {
    let mut t = any_tracker::<V>(M);
    let mut old = [V::get_max(); M];
    for i in 0..M {
        old[i] = t.values[i];
    }
    let k = any_below(M);
    let v = V::any_val();
    // observers on the pre-state
    let premax = leaves_max(&t);
    assert!(t.get_max_value() == premax);
    assert!(t.is_update_possible(v) == (v < premax));
    // the call, with the subscript case-split so that every path has concrete offsets
    for k0 in 0..M {
        if k == k0 {
            t.update(k0, v);
        }
    }
    // post: Inv, slot k = min(old, v), other slots unchanged, max = max of slots
    assert!(inv_holds(&t));
    for i in 0..M {
        if i == k {
            assert!(t.get_value(i) == vmin(old[i], v));
        } else {
            assert!(t.get_value(i) == old[i]);
        }
    }
    let postmax = leaves_max(&t);
    assert!(t.get_max_value() == postmax);
    let w = V::any_val();
    assert!(t.is_update_possible(w) == (w < postmax));
    kani::cover!(t.get_value(k) == v && postmax < premax, "witness: an update lowered the maximum");
}

/// `new` and `reset` give the all-MAX state, which satisfies Inv
fn fresh<V: AnyVal, const M: usize>() {
    let t = MaxValueTracker::<V>::new(M);
    assert!(t.m == M);
    assert!(inv_holds(&t));
    for i in 0..(2 * M - 1) {
        assert!(t.values[i] == V::get_max());
    }
    assert!(t.get_max_value() == V::get_max());
    // reset from an arbitrary (even Inv-violating) content
    let mut d = MaxValueTracker::<V>::new(M);
    for i in 0..(2 * M - 1) {
        d.values[i] = V::any_val();
    }
    d.reset();
    assert!(d.m == M && d.last_index == t.last_index && d.values.len() == t.values.len());
    for i in 0..(2 * M - 1) {
        assert!(d.values[i] == V::get_max());
    }
    kani::cover!(true, "witness: reached end");
}

macro_rules! tracker_harness {
    ($step:ident, $fresh:ident, $ty:ty, $m:expr, $unw:expr) => {
        #[kani::proof]
        #[kani::unwind($unw)]
        fn $step() {
            step::<$ty, $m>();
        }
        #[kani::proof]
        #[kani::unwind($unw)]
        fn $fresh() {
            fresh::<$ty, $m>();
        }
    };
}

// unwind: loops over 2m-1 nodes in the harness (+1), update's propagation loop <= depth+1
tracker_harness!(c15_step_f64_m1, c15_fresh_f64_m1, f64, 1, 3);
tracker_harness!(c15_step_f64_m2, c15_fresh_f64_m2, f64, 2, 5);
tracker_harness!(c15_step_f64_m3, c15_fresh_f64_m3, f64, 3, 7);
tracker_harness!(c15_step_f64_m4, c15_fresh_f64_m4, f64, 4, 9);
tracker_harness!(c15_step_f64_m5, c15_fresh_f64_m5, f64, 5, 11);
tracker_harness!(c15_step_f64_m6, c15_fresh_f64_m6, f64, 6, 13);
tracker_harness!(c15_step_u16_m2, c15_fresh_u16_m2, u16, 2, 5);
tracker_harness!(c15_step_u16_m3, c15_fresh_u16_m3, u16, 3, 7);
tracker_harness!(c15_step_u16_m4, c15_fresh_u16_m4, u16, 4, 9);
tracker_harness!(c15_step_u16_m5, c15_fresh_u16_m5, u16, 5, 11);
tracker_harness!(c15_step_u16_m7, c15_fresh_u16_m7, u16, 7, 15);
tracker_harness!(c15_step_u16_m8, c15_fresh_u16_m8, u16, 8, 17);
tracker_harness!(c15_step_u16_m9, c15_fresh_u16_m9, u16, 9, 19);
tracker_harness!(c15_step_u16_m12, c15_fresh_u16_m12, u16, 12, 25);
tracker_harness!(c15_step_u64_m5, c15_fresh_u64_m5, u64, 5, 11);
tracker_harness!(c15_step_f32_m3, c15_fresh_f32_m3, f32, 3, 7);

// ---- helpers for the harness modules of the sketchers that own a tracker -------------------
/// arbitrary content, no invariant (for reset checks)
pub(crate) fn garbage_tracker_f64(m: usize) -> MaxValueTracker<f64> {
    let mut t = MaxValueTracker::<f64>::new(m);
    for i in 0..(2 * m - 1) {
        t.values[i] = kani::any();
    }
    t
}
pub(crate) fn is_all_max_f64(t: &MaxValueTracker<f64>, m: usize) -> bool {
    let mut ok = t.m == m && t.last_index == 2 * m - 2 && t.values.len() == 2 * m - 1;
    if ok {
        for i in 0..(2 * m - 1) {
            ok = ok && t.values[i] == f64::MAX;
        }
    }
    ok
}
/// arbitrary tracker state satisfying the invariant (leaves arbitrary non-NaN)
pub(crate) fn any_tracker_f64(m: usize) -> MaxValueTracker<f64> {
    any_tracker::<f64>(m)
}
pub(crate) fn tracker_inv_f64(t: &MaxValueTracker<f64>) -> bool {
    inv_holds(t)
}
pub(crate) fn set_leaf_f64(t: &mut MaxValueTracker<f64>, i: usize, v: f64) {
    t.values[i] = v;
}
/// recompute the inner nodes from the leaves
pub(crate) fn rebuild_f64(t: &mut MaxValueTracker<f64>) {
    let m = t.m;
    for p in m..(2 * m - 1) {
        let c = 2 * (p - m);
        t.values[p] = vmax(t.values[c], t.values[c + 1]);
    }
}
