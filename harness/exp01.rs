//! Kani harnesses for `crate::exp01` (child module: private fields visible).
use super::*;
#[allow(unused_imports)]
use crate::verif_common::*;
use rand::SeedableRng;
use rand_xoshiro::Xoshiro256PlusPlus as Xo;

/// sampler built by a literal: the constants are computed natively (by /verif/lib, from the formulas of
/// `ExpRestricted01::new`) because CBMC's models of exp/ln/exp_m1 take minutes on concrete arguments
pub(crate) fn literal(lambda: f64, c1: f64, c2: f64, c3: f64) -> ExpRestricted01 {
    ExpRestricted01 {
        lambda,
        c1,
        c2,
        c3,
        unit_range: Uniform::<f64>::new(0., 1.).unwrap(),
    }
}


// =====================================================================================
// C16 — support of the truncated-exponential sampler (the law itself is an integral: not decided)
// =====================================================================================

pub(crate) fn exp_m1_any(_x: f64) -> f64 {
    // only selects accept / reject in the last test of the loop, never the returned value
    kani::any()
}

/// every `return` of `sample` yields 0 <= x < 1, for arbitrary constants within the ranges that
/// `new(lambda)` produces (c1 >= 1, 0 < c2 <= 1/2, 0 < c3 <= 1) and every generator output.
/// The rejection loop is state-free: one iteration is modelled (executions that reject once are cut
/// by --no-unwinding-checks; a further iteration starts from the same state with fresh draws).
fn c16_support() {
    let c1 = any_f64_in(1.0, 1.0e6);
    let c2 = any_f64_in(1.0e-300, 0.5);
    let c3 = any_f64_in(1.0e-300, 1.0);
    let lambda = any_f64_in(1.0e-9, 50.0);
    let e = literal(lambda, c1, c2, c3);
    let mut rng = Xo::seed_from_u64(kani::any());
    let x = e.sample(&mut rng);
    assert!(x >= 0.0 && x < 1.0);
    kani::cover!(rng.consumed() == 1 && x > 0.9, "witness: fast path");
    kani::cover!(rng.consumed() == 2, "witness: accepted under c2");
    kani::cover!(rng.consumed() == 3 && x < 0.5, "witness: accepted after the y draw");
}

/// same with the constants of ProbMinHash3 for m = 2..5 (lambda = ln(m/(m-1))), computed natively
fn c16_support_m(lambda: f64, c1: f64, c2: f64, c3: f64) {
    let e = literal(lambda, c1, c2, c3);
    let mut rng = Xo::seed_from_u64(kani::any());
    let x = e.sample(&mut rng);
    assert!(x >= 0.0 && x < 1.0);
    kani::cover!(rng.consumed() == 3, "witness: slow path");
}

#[kani::proof]
#[kani::stub(f64::exp_m1, exp_m1_any)]
#[kani::unwind(2)]
fn c16_support_any_constants() {
    c16_support();
}
#[kani::proof]
#[kani::stub(f64::exp_m1, exp_m1_any)]
#[kani::unwind(2)]
fn c16_support_m2() {
    c16_support_m(0.6931471805599453, 1.4426950408889634, 0.4150374992788437, 0.7213475204444817);
}
#[kani::proof]
#[kani::stub(f64::exp_m1, exp_m1_any)]
#[kani::unwind(2)]
fn c16_support_m3() {
    c16_support_m(0.4054651081081644, 1.2331517311882159, 0.44966028678679193, 0.8221011541254774);
}
#[kani::proof]
#[kani::stub(f64::exp_m1, exp_m1_any)]
#[kani::unwind(2)]
fn c16_support_m5() {
    c16_support_m(0.22314355131420976, 1.1203550294311373, 0.47216473448281543, 0.8962840235449098);
}

// The harnesses that build the sampler with the REAL constructor `new(lambda)` live in exp01_new.rs; they are run in a
// scratch copy of their own in which no other harness module is mounted, so that they keep compiling when the
// field layout of ExpRestricted01 changes (the literal helper above does not).
