//! C18 — byte identities (`Sig::get_sig`) are the native-endian bytes and are memory safe.
//! CBMC's pointer / allocation checks (use after free, double free, out of bounds, dealloc of a
//! foreign object) are part of every Kani run; the harness drops argument and result explicitly.
use super::*;

macro_rules! scalar_sig {
    ($name:ident, $ty:ty) => {
        #[kani::proof]
        #[kani::unwind(10)]
        fn $name() {
            let x: $ty = kani::any();
            let y: $ty = kani::any();
            let sx = x.get_sig();
            let sy = y.get_sig();
            let nb = x.to_ne_bytes();
            assert!(sx.len() == std::mem::size_of::<$ty>());
            for i in 0..std::mem::size_of::<$ty>() {
                assert!(sx[i] == nb[i]);
            }
            // equal values <=> equal bytes
            let mut same = sx.len() == sy.len();
            for i in 0..std::mem::size_of::<$ty>() {
                same = same && sx[i] == sy[i];
            }
            assert!(same == (x == y));
            kani::cover!(x != y, "witness");
            drop(sx);
            drop(sy);
        }
    };
}
scalar_sig!(c18_u8, u8);
scalar_sig!(c18_u16, u16);
scalar_sig!(c18_u32, u32);
scalar_sig!(c18_u64, u64);
scalar_sig!(c18_i16, i16);
scalar_sig!(c18_i32, i32);

macro_rules! vec_sig {
    ($name:ident, $ty:ty, $n:expr, $unw:expr) => {
        /// vectors of concrete length $n (and a second one of length $n or $n - 1), all element values
        #[kani::proof]
        #[kani::unwind($unw)]
        fn $name() {
            const SZ: usize = std::mem::size_of::<$ty>();
            let a: [$ty; $n] = kani::any();
            let b: [$ty; $n] = kani::any();
            let shorter: bool = kani::any();
            let va: Vec<$ty> = a.to_vec();
            let vb: Vec<$ty> = if shorter && $n > 0 { b[..($n as usize).saturating_sub(1)].to_vec() } else { b.to_vec() };
            let lb = vb.len();
            let sa = va.get_sig();
            let sb = vb.get_sig();
            assert!(sa.len() == $n * SZ);
            assert!(sb.len() == lb * SZ);
            for i in 0..$n {
                let nb = a[i].to_ne_bytes();
                for j in 0..SZ {
                    assert!(sa[i * SZ + j] == nb[j]);
                }
            }
            // the argument is not consumed or altered
            assert!(va.len() == $n);
            for i in 0..$n {
                assert!(va[i] == a[i]);
            }
            // equal values <=> equal bytes
            let mut same_v = lb == $n;
            for i in 0..$n {
                if i < lb {
                    same_v = same_v && a[i] == b[i];
                }
            }
            let mut same_b = sa.len() == sb.len();
            if same_b {
                for i in 0..($n * SZ) {
                    same_b = same_b && sa[i] == sb[i];
                }
            }
            assert!(same_v == same_b);
            kani::cover!(!shorter && !same_v || $n == 0, "witness");
            // every owner is released exactly once: any double free / use after free shows here
            drop(sa);
            drop(va);
            drop(sb);
            drop(vb);
        }
    };
}
vec_sig!(c18_vec_u8_l0, u8, 0, 3);
vec_sig!(c18_vec_u8_l1, u8, 1, 4);
vec_sig!(c18_vec_u8_l3, u8, 3, 6);
vec_sig!(c18_vec_u8_l6, u8, 6, 9);
vec_sig!(c18_vec_u16_l0, u16, 0, 3);
vec_sig!(c18_vec_u16_l1, u16, 1, 5);
vec_sig!(c18_vec_u16_l2, u16, 2, 7);
vec_sig!(c18_vec_u16_l3, u16, 3, 9);
vec_sig!(c18_vec_u16_l5, u16, 5, 13);
vec_sig!(c18_vec_u32_l0, u32, 0, 3);
vec_sig!(c18_vec_u32_l1, u32, 1, 7);
vec_sig!(c18_vec_u32_l2, u32, 2, 11);
vec_sig!(c18_vec_u32_l3, u32, 3, 15);
vec_sig!(c18_vec_u32_l4, u32, 4, 19);

fn string_sig<const N: usize>() {
    // ASCII strings of symbolic length <= N (String::from_utf8 on arbitrary bytes would drag the
    // UTF-8 validator in; the byte identity does not depend on it)
    let a: [u8; N] = kani::any();
    let la: usize = kani::any();
    kani::assume(la <= N);
    let mut s = String::new();
    for i in 0..N {
        if i < la {
            kani::assume(a[i] < 128);
            s.push(a[i] as char);
        }
    }
    let sig = s.get_sig();
    assert!(sig.len() == la);
    for i in 0..N {
        if i < la {
            assert!(sig[i] == a[i]);
        }
    }
    assert!(s.len() == la);
    kani::cover!(la == N, "witness");
    drop(sig);
    drop(s);
}

#[kani::proof]
#[kani::unwind(6)]
fn c18_string_n3() {
    string_sig::<3>();
}


/// vector whose capacity exceeds its length (spare capacity must not leak into the identity)
macro_rules! vec_sig_cap {
    ($name:ident, $ty:ty, $n:expr, $extra:expr, $unw:expr) => {
        #[kani::proof]
        #[kani::unwind($unw)]
        fn $name() {
            const SZ: usize = std::mem::size_of::<$ty>();
            let a: [$ty; $n] = kani::any();
            let mut va: Vec<$ty> = Vec::with_capacity($n + $extra);
            for i in 0..$n {
                va.push(a[i]);
            }
            // a popped element leaves stale data in the spare capacity
            let stale: $ty = kani::any();
            va.push(stale);
            va.pop();
            assert!(va.capacity() > va.len());
            let sa = va.get_sig();
            assert!(sa.len() == $n * SZ);
            for i in 0..$n {
                let nb = a[i].to_ne_bytes();
                for j in 0..SZ {
                    assert!(sa[i * SZ + j] == nb[j]);
                }
            }
            kani::cover!($n == 0 || a[0] != stale, "witness");
            drop(sa);
            drop(va);
        }
    };
}
vec_sig_cap!(c18_vec_u8_cap, u8, 2, 3, 8);
vec_sig_cap!(c18_vec_u16_cap, u16, 2, 3, 8);
vec_sig_cap!(c18_vec_u32_cap, u32, 2, 2, 12);

/// strings with non-ASCII content: identity == the UTF-8 bytes (two symbolic chars up to U+FFFF)
#[kani::proof]
#[kani::unwind(8)]
fn c18_string_utf8() {
    let c1: u32 = kani::any();
    let c2: u32 = kani::any();
    kani::assume(c1 < 0xD800 && c2 < 0xD800);
    let mut s = String::new();
    s.push(char::from_u32(c1).unwrap());
    s.push(char::from_u32(c2).unwrap());
    let n = s.len();
    assert!(n >= 2 && n <= 6);
    let sig = s.get_sig();
    assert!(sig.len() == n);
    let b = s.as_bytes();
    for i in 0..6 {
        if i < n {
            assert!(sig[i] == b[i]);
        }
    }
    kani::cover!(n == 5, "witness: a 2-byte and a 3-byte character");
    drop(sig);
    drop(s);
}

/// fixed strings with 1-, 2- and 3-byte characters (concrete content keeps iterator-based implementations of
/// get_sig - chars(), collect() - within CBMC's reach, where the symbolic instances run out of memory): identity == UTF-8 bytes
fn string_fixed(txt: &str, expect: &[u8]) {
    let s = String::from(txt);
    let sig = s.get_sig();
    assert!(sig.len() == expect.len());
    let n = expect.len();
    for i in 0..6 {
        if i < n {
            assert!(sig[i] == expect[i]);
        }
    }
    assert!(s.len() == n);
    drop(sig);
    drop(s);
}
#[kani::proof]
#[kani::unwind(10)]
fn c18_string_fixed() {
    string_fixed("", &[]);
    string_fixed("a", &[0x61]);
    string_fixed("\u{e9}", &[0xC3, 0xA9]);
    string_fixed("a\u{e9}\u{20ac}", &[0x61, 0xC3, 0xA9, 0xE2, 0x82, 0xAC]);
    kani::cover!(true, "witness");
}
