//! C14 — counting estimators in `crate::jaccard` (symbolic slices, symbolic length <= N)
use super::*;
use crate::verif_common::*;

fn count_eq<T: PartialEq>(a: &[T], b: &[T]) -> usize {
    let mut c = 0;
    for i in 0..a.len() {
        if a[i] == b[i] {
            c += 1;
        }
    }
    c
}

fn exact_u64<const N: usize>(which: u8) {
    let a: [u64; N] = kani::any();
    let b: [u64; N] = kani::any();
    let len: usize = kani::any();
    kani::assume(len >= 1 && len <= N);
    let sa = &a[..len];
    let sb = &b[..len];
    let (r, r_sym, r_self) = if which == 0 {
        (
            compute_probminhash_jaccard(sa, sb),
            compute_probminhash_jaccard(sb, sa),
            compute_probminhash_jaccard(sa, sa),
        )
    } else {
        match (
            strip(get_jaccard_index_estimate(sa, sb)),
            strip(get_jaccard_index_estimate(sb, sa)),
            strip(get_jaccard_index_estimate(sa, sa)),
        ) {
            (Some(x), Some(y), Some(z)) => (x, y, z),
            _ => {
                assert!(false, "estimator returned Err on equal lengths");
                (0., 0., 0.)
            }
        }
    };
    let c = count_eq(sa, sb);
    assert!(r == c as f64 / len as f64);
    assert!(r.to_bits() == r_sym.to_bits());
    assert!(r_self == 1.0);
    assert!(r >= 0.0 && r <= 1.0);
    kani::cover!(c == 1 && len == N, "witness: exactly one match at full length");
}

fn exact_f64<const N: usize>() {
    let mut a = [0f64; N];
    let mut b = [0f64; N];
    for i in 0..N {
        a[i] = any_f64_nonnan();
        b[i] = any_f64_nonnan();
    }
    let len: usize = kani::any();
    kani::assume(len >= 1 && len <= N);
    let sa = &a[..len];
    let sb = &b[..len];
    let r = compute_probminhash_jaccard(sa, sb);
    let c = count_eq(sa, sb);
    assert!(r == c as f64 / len as f64);
    assert!(r.to_bits() == compute_probminhash_jaccard(sb, sa).to_bits());
    assert!(compute_probminhash_jaccard(sa, sa) == 1.0);
    assert!(r >= 0.0 && r <= 1.0);
    kani::cover!(c == 1 && len == N, "witness");
}

/// unequal lengths: the call must not return (it panics) - the cover after the call must be unreachable
fn mismatch<const N: usize>(which: u8) {
    let a: [u64; N] = kani::any();
    let b: [u64; N] = kani::any();
    let la: usize = kani::any();
    let lb: usize = kani::any();
    kani::assume(la <= N && lb <= N && la != lb);
    if which == 0 {
        let _ = compute_probminhash_jaccard(&a[..la], &b[..lb]);
    } else {
        let r = strip(get_jaccard_index_estimate(&a[..la], &b[..lb]));
        if r.is_none() {
            // an Err is as good as a panic
            panic!("reported as Err");
        }
    }
    kani::cover!(true, "MUST-BE-UNREACHABLE: estimator returned a value on unequal lengths");
}

#[kani::proof]
#[kani::unwind(6)]
fn c14_pmh_u64_n4() {
    exact_u64::<4>(0);
}
#[kani::proof]
#[kani::unwind(8)]
fn c14_pmh_u64_n6() {
    exact_u64::<6>(0);
}
#[kani::proof]
#[kani::unwind(6)]
fn c14_pmh_alias_u64_n4() {
    exact_u64::<4>(1);
}
#[kani::proof]
#[kani::unwind(6)]
fn c14_pmh_f64_n4() {
    exact_f64::<4>();
}
#[kani::proof]
#[kani::unwind(6)]
#[kani::should_panic]
fn c14_pmh_mismatch_n4() {
    mismatch::<4>(0);
}
#[kani::proof]
#[kani::unwind(6)]
#[kani::should_panic]
fn c14_pmh_alias_mismatch_n4() {
    mismatch::<4>(1);
}
