//! Kani harnesses for `crate::superminhasher` (child module: private fields visible).
//! C14 estimators (this section); C03/C04/C05/C12/C13 sections follow.
use super::*;
use crate::verif_common::*;

pub(crate) type Smh64 = SuperMinHash<f64, u64, NoHashHasher>;
pub(crate) type Smh32 = SuperMinHash<f32, u64, NoHashHasher>;

fn c14_count<F: Float>(a: &[F], b: &[F]) -> usize {
    let mut c = 0;
    for i in 0..a.len() {
        if a[i] == b[i] {
            c += 1;
        }
    }
    c
}

trait AnyF: Float + SampleUniform + std::fmt::Debug {
    fn anyf() -> Self;
}
impl AnyF for f64 {
    fn anyf() -> f64 {
        any_f64_nonnan()
    }
}
impl AnyF for f32 {
    fn anyf() -> f32 {
        any_f32_nonnan()
    }
}

fn c14_free_fn<F: AnyF, const N: usize>(alias: bool) {
    let mut a = [F::zero(); N];
    let mut b = [F::zero(); N];
    for i in 0..N {
        a[i] = F::anyf();
        b[i] = F::anyf();
    }
    let la: usize = kani::any();
    let lb: usize = kani::any();
    kani::assume(la >= 1 && la <= N && lb <= N);
    let (sa, sb) = (&a[..la], &b[..lb]);
    let f = |x: &[F], y: &[F]| {
        if alias {
            strip(get_jaccard_index_estimate::<F>(x, y))
        } else {
            strip(compute_superminhash_jaccard::<F>(x, y))
        }
    };
    let r = f(sa, sb);
    if la != lb {
        assert!(r.is_none());
        return;
    }
    let c = c14_count(sa, sb);
    match (r, f(sb, sa), f(sa, sa)) {
        (Some(x), Some(y), Some(z)) => {
            assert!(x == F::from(c).unwrap() / F::from(la).unwrap());
            assert!(x == y);
            assert!(z == F::one());
            assert!(x >= F::zero() && x <= F::one());
        }
        _ => {
            assert!(false, "Err on equal lengths");
        }
    }
    kani::cover!(c == 1 && la == N, "witness");
}

fn c14_method<F: AnyF, const M: usize>() {
    let mut s = SuperMinHash::<F, u64, NoHashHasher>::new(M, BuildHasherDefault::<NoHashHasher>::default());
    // the other sketch may be shorter, equal or LONGER (up to m + 2)
    let mut b = [F::zero(); 8];
    assert!(M + 2 <= 8);
    for i in 0..M {
        s.hsketch[i] = F::anyf();
    }
    for i in 0..(M + 2) {
        b[i] = F::anyf();
    }
    let lb: usize = kani::any();
    kani::assume(lb <= M + 2);
    let r = strip(s.get_jaccard_index_estimate(&b[..lb]));
    if lb != M {
        assert!(r.is_none());
        std::mem::forget(s);
        return;
    }
    let c = c14_count(&s.hsketch[..], &b[..M]);
    match r {
        Some(x) => {
            assert!(x == c as f64 / M as f64);
            assert!(x >= 0.0 && x <= 1.0);
        }
        None => {
            assert!(false, "Err on equal lengths");
        }
    }
    // identical sketch gives 1
    let mut own = [F::zero(); M];
    for i in 0..M {
        own[i] = s.hsketch[i];
    }
    assert!(strip(s.get_jaccard_index_estimate(&own[..])) == Some(1.0));
    kani::cover!(c == 1, "witness");
    std::mem::forget(s);
}

#[kani::proof]
#[kani::stub(std::backtrace::Backtrace::capture, crate::verif_common::no_backtrace)]
#[kani::stub(<::anyhow::Error as std::ops::Drop>::drop, crate::verif_common::anyhow_drop_noop)]
#[kani::unwind(6)]
fn c14_smh_free_f64_n4() {
    c14_free_fn::<f64, 4>(false);
}
#[kani::proof]
#[kani::stub(std::backtrace::Backtrace::capture, crate::verif_common::no_backtrace)]
#[kani::stub(<::anyhow::Error as std::ops::Drop>::drop, crate::verif_common::anyhow_drop_noop)]
#[kani::unwind(6)]
fn c14_smh_free_f32_n4() {
    c14_free_fn::<f32, 4>(false);
}
#[kani::proof]
#[kani::stub(std::backtrace::Backtrace::capture, crate::verif_common::no_backtrace)]
#[kani::stub(<::anyhow::Error as std::ops::Drop>::drop, crate::verif_common::anyhow_drop_noop)]
#[kani::unwind(6)]
fn c14_smh_alias_f64_n4() {
    c14_free_fn::<f64, 4>(true);
}
#[kani::proof]
#[kani::stub(std::backtrace::Backtrace::capture, crate::verif_common::no_backtrace)]
#[kani::stub(<::anyhow::Error as std::ops::Drop>::drop, crate::verif_common::anyhow_drop_noop)]
#[kani::unwind(8)]
fn c14_smh_free_f64_n6() {
    c14_free_fn::<f64, 6>(false);
}
#[kani::proof]
#[kani::stub(std::backtrace::Backtrace::capture, crate::verif_common::no_backtrace)]
#[kani::stub(<::anyhow::Error as std::ops::Drop>::drop, crate::verif_common::anyhow_drop_noop)]
#[kani::unwind(8)]
fn c14_smh_method_f64_m4() {
    c14_method::<f64, 4>();
}
#[kani::proof]
#[kani::stub(std::backtrace::Backtrace::capture, crate::verif_common::no_backtrace)]
#[kani::stub(<::anyhow::Error as std::ops::Drop>::drop, crate::verif_common::anyhow_drop_noop)]
#[kani::unwind(9)]
fn c14_smh_method_f64_m5() {
    c14_method::<f64, 5>();
}
#[kani::proof]
#[kani::stub(std::backtrace::Backtrace::capture, crate::verif_common::no_backtrace)]
#[kani::stub(<::anyhow::Error as std::ops::Drop>::drop, crate::verif_common::anyhow_drop_noop)]
#[kani::unwind(7)]
fn c14_smh_method_f32_m3() {
    c14_method::<f32, 3>();
}

// =====================================================================================
// C13 — reinit() from arbitrary content gives exactly the state of new(size)
// =====================================================================================

/// every mutable field arbitrary (no invariant at all)
pub(crate) fn garbage_smh<F: AnyF>(m: usize) -> SuperMinHash<F, u64, NoHashHasher> {
    let mut s = SuperMinHash::<F, u64, NoHashHasher>::new(m, BuildHasherDefault::<NoHashHasher>::default());
    for i in 0..m {
        s.hsketch[i] = F::anyf();
        s.q[i] = kani::any();
        s.p[i] = kani::any();
        s.b[i] = kani::any();
    }
    s.item_rank = kani::any();
    s.a_upper = kani::any();
    s
}

/// field-wise equality; the exhaustive patterns make this stop compiling when a field is added,
/// so a new field cannot be silently left out of the comparison
pub(crate) fn same_state_smh<F: AnyF>(x: &SuperMinHash<F, u64, NoHashHasher>, y: &SuperMinHash<F, u64, NoHashHasher>) -> bool {
    let SuperMinHash { hsketch, q, p, b, item_rank, a_upper, b_hasher: _, t_marker: _ } = x;
    let SuperMinHash { hsketch: h2, q: q2, p: p2, b: b2, item_rank: ir2, a_upper: au2, b_hasher: _, t_marker: _ } = y;
    let m = hsketch.len();
    let mut ok = h2.len() == m && q.len() == m && q2.len() == m && p.len() == m && p2.len() == m && b.len() == m && b2.len() == m;
    ok = ok && item_rank == ir2 && a_upper == au2;
    if ok {
        for i in 0..m {
            ok = ok && hsketch[i] == h2[i] && q[i] == q2[i] && p[i] == p2[i] && b[i] == b2[i];
        }
    }
    ok
}

fn c13_reinit<F: AnyF, const M: usize>() {
    let mut s = garbage_smh::<F>(M);
    s.reinit();
    let n = SuperMinHash::<F, u64, NoHashHasher>::new(M, BuildHasherDefault::<NoHashHasher>::default());
    assert!(same_state_smh(&s, &n));
    // and the fresh state is the documented one
    for i in 0..M {
        assert!(n.hsketch[i] == F::from(u32::MAX).unwrap());
        assert!(n.q[i] == -1 && n.p[i] == 0);
        assert!(n.b[i] == if i == M - 1 { M as i64 } else { 0 });
    }
    assert!(n.item_rank == 0 && n.a_upper == M - 1);
    kani::cover!(true, "witness");
    std::mem::forget(s);
    std::mem::forget(n);
}

#[kani::proof]
#[kani::unwind(5)]
fn c13_smh_f64_m2() {
    c13_reinit::<f64, 2>();
}
#[kani::proof]
#[kani::unwind(6)]
fn c13_smh_f64_m3() {
    c13_reinit::<f64, 3>();
}
#[kani::proof]
#[kani::unwind(8)]
fn c13_smh_f64_m5() {
    c13_reinit::<f64, 5>();
}
#[kani::proof]
#[kani::unwind(6)]
fn c13_smh_f32_m3() {
    c13_reinit::<f32, 3>();
}
#[kani::proof]
#[kani::unwind(4)]
fn c13_smh_f64_m1() {
    c13_reinit::<f64, 1>();
}

// =====================================================================================
// C04 / C05 / C03 — one SuperMinHash::sketch call is the position-wise MIN of the old sketch and
// the item's full (unpruned) contribution, and keeps the representation invariant
// =====================================================================================
//
//   Inv:  every hsketch[i] is either the initial value LARGE (= u32::MAX) or lies in [0, m];
//         b[j] == #{ i : min(floor(hsketch[i]), m-1) == j }   (histogram of integer parts, clamped)
//         a_upper == max{ j : b[j] > 0 }
//         q[i] < item_rank for all i   (lazy-reset marker never equals the rank of the next item)
use rand_xoshiro::Xoshiro256PlusPlus as Xo;

pub(crate) trait StepF: AnyF {
    fn any_in_sketch_range(m: usize) -> Self;
    fn bits_eq(a: Self, b: Self) -> bool;
}
impl StepF for f64 {
    fn any_in_sketch_range(m: usize) -> f64 {
        let x: f64 = kani::any();
        kani::assume((x >= 0.0 && x <= m as f64) || x == u32::MAX as f64);
        x
    }
    fn bits_eq(a: f64, b: f64) -> bool {
        a.to_bits() == b.to_bits()
    }
}
impl StepF for f32 {
    fn any_in_sketch_range(m: usize) -> f32 {
        let x: f32 = kani::any();
        kani::assume((x >= 0.0 && x <= m as f32) || x == u32::MAX as f32);
        x
    }
    fn bits_eq(a: f32, b: f32) -> bool {
        a.to_bits() == b.to_bits()
    }
}

fn bucket<F: StepF>(v: F, m: usize) -> usize {
    cmp::min(v.to_usize().unwrap(), m - 1)
}

/// arbitrary state satisfying Inv (sketch values symbolic, histogram and upper bound derived)
pub(crate) fn any_inv_state<F: StepF, const M: usize>() -> SuperMinHash<F, u64, NoHashHasher> {
    let mut s = SuperMinHash::<F, u64, NoHashHasher>::new(M, BuildHasherDefault::<NoHashHasher>::default());
    let rank: usize = kani::any();
    kani::assume(rank < (1usize << 40));
    s.item_rank = rank;
    for i in 0..M {
        s.hsketch[i] = F::any_in_sketch_range(M);
        let qi: i64 = kani::any();
        kani::assume(qi >= -1 && qi < rank as i64);
        s.q[i] = qi;
        s.p[i] = kani::any();
        s.b[i] = 0;
    }
    for i in 0..M {
        let bk = bucket(s.hsketch[i], M);
        for j in 0..M {
            if j == bk {
                s.b[j] += 1;
            }
        }
    }
    let mut au = 0;
    for j in 0..M {
        if s.b[j] > 0 {
            au = j;
        }
    }
    s.a_upper = au;
    s
}

pub(crate) fn inv_smh<F: StepF, const M: usize>(s: &SuperMinHash<F, u64, NoHashHasher>) -> bool {
    let mut ok = s.hsketch.len() == M && s.q.len() == M && s.p.len() == M && s.b.len() == M;
    let mut hist = [0i64; M];
    for i in 0..M {
        let v = s.hsketch[i];
        ok = ok && ((v >= F::zero() && v <= F::from(M).unwrap()) || v == F::from(u32::MAX).unwrap());
        let bk = bucket(v, M);
        for j in 0..M {
            if j == bk {
                hist[j] += 1;
            }
        }
        ok = ok && s.q[i] < s.item_rank as i64;
    }
    let mut au = 0;
    for j in 0..M {
        ok = ok && s.b[j] == hist[j];
        if hist[j] > 0 {
            au = j;
        }
    }
    ok && s.a_upper == au
}

/// the item's full contribution: value j + r_j on position p_j of the item's Fisher-Yates permutation,
/// computed from the same per-item stream with no pruning
fn contribution<F: StepF, const M: usize>(item: u64) -> [F; M] {
    let mut rng = Xo::seed_from_u64(nohash(item));
    let unit = Uniform::<F>::new(num::zero::<F>(), num::one::<F>()).unwrap();
    let mut p = [0usize; M];
    for i in 0..M {
        p[i] = i;
    }
    let mut c = [F::zero(); M];
    for j in 0..M {
        let r: F = unit.sample(&mut rng);
        let k = Uniform::<usize>::new(j, M).unwrap().sample(&mut rng);
        // swap p[j], p[k] with the subscript case-split
        let pj = p[j];
        let mut pk = pj;
        for k0 in 0..M {
            if k0 == k {
                pk = p[k0];
                p[k0] = pj;
            }
        }
        p[j] = pk;
        // specification of the stored value: j + r, kept below j + 1 (largest float below j + 1 when the sum rounds up)
        let mut v = r + F::from(j).unwrap();
        let jp1 = F::from(j + 1).unwrap();
        if v >= jp1 {
            v = jp1 - jp1 * F::epsilon() * F::from(0.5).unwrap();
        }
        assert!(v < jp1 && v >= F::from(j).unwrap());
        for i0 in 0..M {
            if i0 == pk {
                c[i0] = v;
            }
        }
    }
    c
}

fn c04_smh_step<F: StepF, const M: usize>() {
    let mut s = any_inv_state::<F, M>();
    let mut old = [F::zero(); M];
    for i in 0..M {
        old[i] = s.hsketch[i];
    }
    let rank0 = s.item_rank;
    let item: u64 = kani::any();
    let r = strip(s.sketch(&item));
    assert!(r.is_some());
    let c = contribution::<F, M>(item);
    // join lemma: position-wise minimum
    for i in 0..M {
        let e = if c[i] < old[i] { c[i] } else { old[i] };
        assert!(F::bits_eq(s.hsketch[i], e));
    }
    assert!(s.item_rank == rank0 + 1);
    // the invariant is kept
    assert!(inv_smh::<F, M>(&s));
    kani::cover!(s.hsketch[0] < old[0] && (M < 2 || F::bits_eq(s.hsketch[M - 1], old[M - 1])), "witness: one position improved, another kept");
    std::mem::forget(s);
}

/// C03, single-item clause: from the fresh state one item puts j + r_j on position p_j; the p_j are a
/// permutation of 0..m and r_j is the j-th uniform draw (so fractional parts of distinct positions come
/// from distinct generator outputs); every position is written.
fn c03_single_item<F: StepF, const M: usize>() {
    let mut s = SuperMinHash::<F, u64, NoHashHasher>::new(M, BuildHasherDefault::<NoHashHasher>::default());
    let item: u64 = kani::any();
    let r = strip(s.sketch(&item));
    assert!(r.is_some());
    let c = contribution::<F, M>(item);
    let mut seen = [false; M];
    for i in 0..M {
        assert!(F::bits_eq(s.hsketch[i], c[i]));
        // integer parts: exactly a permutation of 0..m-1 (every value lies in [j, j+1) for its level j)
        let ip = s.hsketch[i].to_usize().unwrap();
        assert!(ip < M);
        for j in 0..M {
            if j == ip {
                assert!(!seen[j]);
                seen[j] = true;
            }
        }
        assert!(s.hsketch[i] >= F::zero() && s.hsketch[i] < F::from(M).unwrap());
    }
    assert!(inv_smh::<F, M>(&s));
    kani::cover!(s.hsketch[0] >= F::one(), "witness: non-identity permutation");
    std::mem::forget(s);
}

macro_rules! smh_proof {
    ($name:ident, $unw:expr, $body:expr) => {
        #[kani::proof]
        #[kani::stub(std::backtrace::Backtrace::capture, crate::verif_common::no_backtrace)]
        #[kani::stub(<::anyhow::Error as std::ops::Drop>::drop, crate::verif_common::anyhow_drop_noop)]
        #[kani::unwind($unw)]
        fn $name() {
            $body
        }
    };
}
smh_proof!(c04_smh_step_f64_m2, 5, c04_smh_step::<f64, 2>());
smh_proof!(c04_smh_step_f64_m3, 6, c04_smh_step::<f64, 3>());
smh_proof!(c04_smh_step_f64_m4, 7, c04_smh_step::<f64, 4>());
smh_proof!(c04_smh_step_f32_m2, 5, c04_smh_step::<f32, 2>());
smh_proof!(c04_smh_step_f32_m3, 6, c04_smh_step::<f32, 3>());
smh_proof!(c04_smh_step_f32_m4, 7, c04_smh_step::<f32, 4>());
smh_proof!(c03_single_f64_m2, 5, c03_single_item::<f64, 2>());
smh_proof!(c03_single_f64_m3, 6, c03_single_item::<f64, 3>());
smh_proof!(c03_single_f64_m4, 7, c03_single_item::<f64, 4>());
smh_proof!(c03_single_f32_m3, 6, c03_single_item::<f32, 3>());
smh_proof!(c03_single_f32_m4, 7, c03_single_item::<f32, 4>());

// =====================================================================================
// C12 part 1 — two instances built by `new` with equal parameters give bit-identical sketches
// =====================================================================================
fn c12_two_instances<F: StepF, const M: usize>() {
    let mut a = SuperMinHash::<F, u64, NoHashHasher>::new(M, BuildHasherDefault::<NoHashHasher>::default());
    let mut b = SuperMinHash::<F, u64, NoHashHasher>::new(M, BuildHasherDefault::<NoHashHasher>::default());
    let x: u64 = kani::any();
    assert!(strip(a.sketch(&x)).is_some());
    assert!(strip(b.sketch(&x)).is_some());
    assert!(same_state_smh(&a, &b));
    for i in 0..M {
        assert!(F::bits_eq(a.get_hsketch()[i], b.get_hsketch()[i]));
    }
    kani::cover!(a.get_hsketch()[0] >= F::one(), "witness");
    std::mem::forget(a);
    std::mem::forget(b);
}
smh_proof!(c12_smh_f64_m2, 5, c12_two_instances::<f64, 2>());
smh_proof!(c12_smh_f32_m3, 6, c12_two_instances::<f32, 3>());
