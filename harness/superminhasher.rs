//! Kani harnesses for `crate::superminhasher` (child module: private fields visible).
//! C14 estimators (this section); C03/C04/C05/C12/C13 sections follow.
use super::*;
use crate::verif_common::*;

pub(crate) type Smh64 = SuperMinHash<f64, u64, NoHashHasher>;
pub(crate) type Smh32 = SuperMinHash<f32, u64, NoHashHasher>;

fn c14_count<F: Float>(a: &[F], b: &[F]) -> usize {
    let mut c = 0;
    for i in 0..a.len() {
        if a[i] == b[i] {
            c += 1;
        }
    }
    c
}

trait AnyF: Float + SampleUniform + std::fmt::Debug {
    fn anyf() -> Self;
}
impl AnyF for f64 {
    fn anyf() -> f64 {
        any_f64_nonnan()
    }
}
impl AnyF for f32 {
    fn anyf() -> f32 {
        any_f32_nonnan()
    }
}

fn c14_free_fn<F: AnyF, const N: usize>(alias: bool) {
    let mut a = [F::zero(); N];
    let mut b = [F::zero(); N];
    for i in 0..N {
        a[i] = F::anyf();
        b[i] = F::anyf();
    }
    let la: usize = kani::any();
    let lb: usize = kani::any();
    kani::assume(la >= 1 && la <= N && lb <= N);
    let (sa, sb) = (&a[..la], &b[..lb]);
    let f = |x: &[F], y: &[F]| {
        if alias {
            strip(get_jaccard_index_estimate::<F>(x, y))
        } else {
            strip(compute_superminhash_jaccard::<F>(x, y))
        }
    };
    let r = f(sa, sb);
    if la != lb {
        assert!(r.is_none());
        return;
    }
    let c = c14_count(sa, sb);
    match (r, f(sb, sa), f(sa, sa)) {
        (Some(x), Some(y), Some(z)) => {
            assert!(x == F::from(c).unwrap() / F::from(la).unwrap());
            assert!(x == y);
            assert!(z == F::one());
            assert!(x >= F::zero() && x <= F::one());
        }
        _ => {
            assert!(false, "Err on equal lengths");
        }
    }
    kani::cover!(c == 1 && la == N, "witness");
}

fn c14_method<F: AnyF, const M: usize>() {
    let mut s = SuperMinHash::<F, u64, NoHashHasher>::new(M, BuildHasherDefault::<NoHashHasher>::default());
    let mut b = [F::zero(); M];
    for i in 0..M {
        s.hsketch[i] = F::anyf();
        b[i] = F::anyf();
    }
    let lb: usize = kani::any();
    kani::assume(lb <= M);
    let r = strip(s.get_jaccard_index_estimate(&b[..lb]));
    if lb != M {
        assert!(r.is_none());
        std::mem::forget(s);
        return;
    }
    let c = c14_count(&s.hsketch[..], &b[..]);
    match r {
        Some(x) => {
            assert!(x == c as f64 / M as f64);
            assert!(x >= 0.0 && x <= 1.0);
        }
        None => {
            assert!(false, "Err on equal lengths");
        }
    }
    // identical sketch gives 1
    let mut own = [F::zero(); M];
    for i in 0..M {
        own[i] = s.hsketch[i];
    }
    assert!(strip(s.get_jaccard_index_estimate(&own[..])) == Some(1.0));
    kani::cover!(c == 1, "witness");
    std::mem::forget(s);
}

#[kani::proof]
#[kani::stub(std::backtrace::Backtrace::capture, crate::verif_common::no_backtrace)]
#[kani::unwind(6)]
fn c14_smh_free_f64_n4() {
    c14_free_fn::<f64, 4>(false);
}
#[kani::proof]
#[kani::stub(std::backtrace::Backtrace::capture, crate::verif_common::no_backtrace)]
#[kani::unwind(6)]
fn c14_smh_free_f32_n4() {
    c14_free_fn::<f32, 4>(false);
}
#[kani::proof]
#[kani::stub(std::backtrace::Backtrace::capture, crate::verif_common::no_backtrace)]
#[kani::unwind(6)]
fn c14_smh_alias_f64_n4() {
    c14_free_fn::<f64, 4>(true);
}
#[kani::proof]
#[kani::stub(std::backtrace::Backtrace::capture, crate::verif_common::no_backtrace)]
#[kani::unwind(8)]
fn c14_smh_free_f64_n6() {
    c14_free_fn::<f64, 6>(false);
}
#[kani::proof]
#[kani::stub(std::backtrace::Backtrace::capture, crate::verif_common::no_backtrace)]
#[kani::unwind(6)]
fn c14_smh_method_f64_m4() {
    c14_method::<f64, 4>();
}
#[kani::proof]
#[kani::stub(std::backtrace::Backtrace::capture, crate::verif_common::no_backtrace)]
#[kani::unwind(6)]
fn c14_smh_method_f32_m3() {
    c14_method::<f32, 3>();
}

// =====================================================================================
// C13 — reinit() from arbitrary content gives exactly the state of new(size)
// =====================================================================================

/// every mutable field arbitrary (no invariant at all)
pub(crate) fn garbage_smh<F: AnyF>(m: usize) -> SuperMinHash<F, u64, NoHashHasher> {
    let mut s = SuperMinHash::<F, u64, NoHashHasher>::new(m, BuildHasherDefault::<NoHashHasher>::default());
    for i in 0..m {
        s.hsketch[i] = F::anyf();
        s.q[i] = kani::any();
        s.p[i] = kani::any();
        s.b[i] = kani::any();
    }
    s.item_rank = kani::any();
    s.a_upper = kani::any();
    s
}

/// field-wise equality; the exhaustive patterns make this stop compiling when a field is added,
/// so a new field cannot be silently left out of the comparison
pub(crate) fn same_state_smh<F: AnyF>(x: &SuperMinHash<F, u64, NoHashHasher>, y: &SuperMinHash<F, u64, NoHashHasher>) -> bool {
    let SuperMinHash { hsketch, q, p, b, item_rank, a_upper, b_hasher: _, t_marker: _ } = x;
    let SuperMinHash { hsketch: h2, q: q2, p: p2, b: b2, item_rank: ir2, a_upper: au2, b_hasher: _, t_marker: _ } = y;
    let m = hsketch.len();
    let mut ok = h2.len() == m && q.len() == m && q2.len() == m && p.len() == m && p2.len() == m && b.len() == m && b2.len() == m;
    ok = ok && item_rank == ir2 && a_upper == au2;
    if ok {
        for i in 0..m {
            ok = ok && hsketch[i] == h2[i] && q[i] == q2[i] && p[i] == p2[i] && b[i] == b2[i];
        }
    }
    ok
}

fn c13_reinit<F: AnyF, const M: usize>() {
    let mut s = garbage_smh::<F>(M);
    s.reinit();
    let n = SuperMinHash::<F, u64, NoHashHasher>::new(M, BuildHasherDefault::<NoHashHasher>::default());
    assert!(same_state_smh(&s, &n));
    // and the fresh state is the documented one
    for i in 0..M {
        assert!(n.hsketch[i] == F::from(u32::MAX).unwrap());
        assert!(n.q[i] == -1 && n.p[i] == 0);
        assert!(n.b[i] == if i == M - 1 { M as i64 } else { 0 });
    }
    assert!(n.item_rank == 0 && n.a_upper == M - 1);
    kani::cover!(true, "witness");
    std::mem::forget(s);
    std::mem::forget(n);
}

#[kani::proof]
#[kani::unwind(5)]
fn c13_smh_f64_m2() {
    c13_reinit::<f64, 2>();
}
#[kani::proof]
#[kani::unwind(6)]
fn c13_smh_f64_m3() {
    c13_reinit::<f64, 3>();
}
#[kani::proof]
#[kani::unwind(8)]
fn c13_smh_f64_m5() {
    c13_reinit::<f64, 5>();
}
#[kani::proof]
#[kani::unwind(6)]
fn c13_smh_f32_m3() {
    c13_reinit::<f32, 3>();
}
#[kani::proof]
#[kani::unwind(4)]
fn c13_smh_f64_m1() {
    c13_reinit::<f64, 1>();
}
