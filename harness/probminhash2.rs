//! Kani harnesses for `crate::probminhasher::probminhash2` (child module: private fields visible).
use super::*;
#[allow(unused_imports)]
use crate::verif_common::*;
use crate::fyshuffle::verif_kani as fyk;
use crate::maxvaluetrack::verif_kani as mvk;
use crate::superminhasher::NoHashHasher;

pub(crate) type Pmh2 = ProbMinHash2<u64, NoHashHasher>;

// =====================================================================================
// C13 — reset() from arbitrary content == new(m, initobj)
// =====================================================================================
fn c13_reset_pmh2<const M: usize>() {
    let initobj: u64 = kani::any();
    let mut s = Pmh2::new(M, initobj);
    for i in 0..M {
        s.signature[i] = kani::any();
    }
    s.maxvaluetracker = mvk::garbage_tracker_f64(M);
    s.permut_generator = fyk::garbage_shuffle(M);
    s.reset();
    let n = Pmh2::new(M, initobj);
    // exhaustive patterns: a new field breaks compilation instead of being skipped
    let ProbMinHash2 { m, initobj: io, b_hasher: _, maxvaluetracker, permut_generator, betas, signature } = &s;
    let ProbMinHash2 { m: m2, initobj: io2, b_hasher: _, maxvaluetracker: t2, permut_generator: p2, betas: be2, signature: s2 } = &n;
    assert!(*m == M && *m2 == M && *io == initobj && *io2 == initobj);
    assert!(signature.len() == M && s2.len() == M && betas.len() == M && be2.len() == M);
    for i in 0..M {
        assert!(signature[i] == initobj && s2[i] == initobj);
        assert!(beq(betas[i], be2[i]));
        assert!(beq(betas[i], (M as f64) / ((M - i - 1) as f64)));
    }
    assert!(mvk::is_all_max_f64(maxvaluetracker, M) && mvk::is_all_max_f64(t2, M));
    assert!(fyk::is_fresh(permut_generator, M) && fyk::is_fresh(p2, M));
    kani::cover!(true, "witness");
}

#[kani::proof]
#[kani::unwind(6)]
fn c13_pmh2_m2() {
    c13_reset_pmh2::<2>();
}
#[kani::proof]
#[kani::unwind(8)]
fn c13_pmh2_m3() {
    c13_reset_pmh2::<3>();
}
#[kani::proof]
#[kani::unwind(12)]
fn c13_pmh2_m5() {
    c13_reset_pmh2::<5>();
}
