//! Kani harnesses for `crate::probminhasher::probminhash2` (child module: private fields visible).
use super::*;
#[allow(unused_imports)]
use crate::verif_common::*;
use crate::fyshuffle::verif_kani as fyk;
use crate::maxvaluetrack::verif_kani as mvk;
use crate::superminhasher::NoHashHasher;

pub(crate) type Pmh2 = ProbMinHash2<u64, NoHashHasher>;

// =====================================================================================
// C13 — reset() from arbitrary content == new(m, initobj)
// =====================================================================================
fn c13_reset_pmh2<const M: usize>() {
    let initobj: u64 = kani::any();
    let mut s = Pmh2::new(M, initobj);
    for i in 0..M {
        s.signature[i] = kani::any();
    }
    s.maxvaluetracker = mvk::garbage_tracker_f64(M);
    s.permut_generator = fyk::garbage_shuffle(M);
    s.reset();
    let n = Pmh2::new(M, initobj);
    // exhaustive patterns: a new field breaks compilation instead of being skipped
    let ProbMinHash2 { m, initobj: io, b_hasher: _, maxvaluetracker, permut_generator, betas, signature } = &s;
    let ProbMinHash2 { m: m2, initobj: io2, b_hasher: _, maxvaluetracker: t2, permut_generator: p2, betas: be2, signature: s2 } = &n;
    assert!(*m == M && *m2 == M && *io == initobj && *io2 == initobj);
    assert!(signature.len() == M && s2.len() == M && betas.len() == M && be2.len() == M);
    for i in 0..M {
        assert!(signature[i] == initobj && s2[i] == initobj);
        assert!(beq(betas[i], be2[i]));
        assert!(beq(betas[i], (M as f64) / ((M - i - 1) as f64)));
    }
    assert!(mvk::is_all_max_f64(maxvaluetracker, M) && mvk::is_all_max_f64(t2, M));
    assert!(fyk::is_fresh(permut_generator, M) && fyk::is_fresh(p2, M));
    kani::cover!(true, "witness");
}

#[kani::proof]
#[kani::unwind(6)]
fn c13_pmh2_m2() {
    c13_reset_pmh2::<2>();
}
#[kani::proof]
#[kani::unwind(8)]
fn c13_pmh2_m3() {
    c13_reset_pmh2::<3>();
}
#[kani::proof]
#[kani::unwind(12)]
fn c13_pmh2_m5() {
    c13_reset_pmh2::<5>();
}

// =====================================================================================
// C02 — step lemma for ProbMinHash2::hash_item
// =====================================================================================
use rand_xoshiro::Xoshiro256PlusPlus as Xo;

pub(crate) fn any_pow2_weight() -> f64 {
    let e: i64 = kani::any();
    kani::assume(e >= -40 && e <= 40);
    f64::from_bits(((1023 + e) as u64) << 52)
}

fn c02_pmh2_step<const M: usize>(weight: f64) {
    let initobj: u64 = kani::any();
    let mut s = Pmh2::new(M, initobj);
    for p in 0..M {
        s.signature[p] = kani::any();
    }
    s.maxvaluetracker = mvk::any_tracker_f64(M);
    // the permutation generator may be in any state left by the previous item: hash_item must reset it
    s.permut_generator = fyk::any_shuffle(M);
    let mut reg = [0f64; M];
    let mut sig = [0u64; M];
    for p in 0..M {
        reg[p] = s.maxvaluetracker.get_value(p);
        sig[p] = s.signature[p];
    }
    let id: u64 = kani::any();
    // ---- the real call
    s.hash_item(id, weight);
    // ---- reference: all m points of the item (one per position, slots without replacement), no stop rule
    let winv = 1. / weight;
    let mut rng = Xo::seed_from_u64(nohash(id));
    let mut perm = FYshuffle::new(M);
    let mut best = [f64::INFINITY; M];
    let x0: f64 = Exp1.sample(&mut rng);
    let mut h: f64 = winv * x0;
    for t in 0..M {
        let k = perm.next(&mut rng);
        for p in 0..M {
            if p == k {
                best[p] = h;
            }
        }
        if t + 1 < M {
            let x: f64 = Exp1.sample(&mut rng);
            h += winv * ((M as f64) / ((M - t - 1) as f64)) * x;
        }
    }
    for p in 0..M {
        let r = s.maxvaluetracker.get_value(p);
        assert!(r == fmin(reg[p], best[p]));
        if best[p] < reg[p] {
            assert!(s.signature[p] == id);
        } else {
            assert!(s.signature[p] == sig[p]);
        }
    }
    assert!(mvk::tracker_inv_f64(&s.maxvaluetracker));
    assert!(s.m == M && s.initobj == initobj && s.signature.len() == M);
    kani::cover!(s.signature[0] == id && sig[0] != id && (M < 2 || s.signature[M - 1] == sig[M - 1] && sig[M - 1] != id), "witness: one position taken, another kept");
}

#[kani::proof]
#[kani::unwind(5)]
fn c02_pmh2_step_m2_w1() {
    c02_pmh2_step::<2>(1.0);
}
#[kani::proof]
#[kani::unwind(6)]
fn c02_pmh2_step_m3_w1() {
    c02_pmh2_step::<3>(1.0);
}
#[kani::proof]
#[kani::unwind(5)]
fn c02_pmh2_step_m2() {
    c02_pmh2_step::<2>(any_pow2_weight());
}
#[kani::proof]
#[kani::unwind(6)]
fn c02_pmh2_step_m3() {
    c02_pmh2_step::<3>(any_pow2_weight());
}
#[kani::proof]
#[kani::unwind(7)]
fn c02_pmh2_step_m4() {
    c02_pmh2_step::<4>(any_pow2_weight());
}
#[kani::proof]
#[kani::unwind(6)]
fn c02_pmh2_step_m3_w07() {
    c02_pmh2_step::<3>(0.7);
}

// C12 part 1 — two instances built by `new`, same weighted item, identical signatures and registers
fn c12_pmh2_two<const M: usize>() {
    let mut a = Pmh2::new(M, 0);
    let mut b = Pmh2::new(M, 0);
    let id: u64 = kani::any();
    let w = any_pow2_weight();
    a.hash_item(id, w);
    b.hash_item(id, w);
    for p in 0..M {
        assert!(a.get_signature()[p] == b.get_signature()[p]);
        assert!(beq(a.maxvaluetracker.get_value(p), b.maxvaluetracker.get_value(p)));
    }
    kani::cover!(a.get_signature()[0] == id && id != 0, "witness");
}
#[kani::proof]
#[kani::unwind(5)]
fn c12_pmh2_m2() {
    c12_pmh2_two::<2>();
}
