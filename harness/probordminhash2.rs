//! Kani harnesses for `crate::probminhasher::probordminhash2` (child module: private fields visible).
use super::*;
#[allow(unused_imports)]
use crate::verif_common::*;
use crate::fyshuffle::verif_kani as fyk;
use crate::maxvaluetrack::verif_kani as mvk;
use crate::superminhasher::NoHashHasher;
use std::collections::hash_map::RandomState;
use std::mem::MaybeUninit;

pub(crate) type Pom = ProbOrdMinHash2<NoHashHasher>;

/// placeholder for the `ThreadRng` fields: `ThreadRng::default()` reaches OS entropy and thread-local
/// storage (the Kani compiler aborts on it).  The fields are never read by `hash_set`; the object is
/// `mem::forget`-ed at the end of every harness so the placeholder is never dropped either.
fn thread_rng_placeholder() -> ThreadRng {
    #[allow(invalid_value)]
    unsafe {
        MaybeUninit::<ThreadRng>::uninit().assume_init()
    }
}

/// `RandomState` with the given keys (a fresh process draws them from the OS).  Concrete per harness
/// instance: with symbolic SipHash keys the hashbrown probing becomes symbolic and does not finish in 40 min.
fn random_state(k0: u64, k1: u64) -> RandomState {
    unsafe { std::mem::transmute::<(u64, u64), RandomState>((k0, k1)) }
}

pub(crate) fn literal_store(m: usize, l: usize) -> OrdMinHashStore<f64> {
    OrdMinHashStore {
        m,
        l,
        indices: vec![u64::MAX; m * l],
        values: vec![f64::MAX; m * l],
        hashbuffer: vec![0u64; l],
        seed_rng: thread_rng_placeholder(),
        wyhash_seed: 0xcf7355744a6e8145,
    }
}

/// a sketcher as `new(m, l)` builds it, except that the per-instance random `seed` is a parameter
pub(crate) fn literal_pom(m: usize, l: usize, seed: u64, keys: (u64, u64)) -> Pom {
    let mut g = vec![0f64; m - 1];
    for i in 1..m {
        g[i - 1] = m as f64 / (m - i) as f64;
    }
    ProbOrdMinHash2 {
        m,
        b_hasher: BuildHasherDefault::<NoHashHasher>::default(),
        max_tracker: MaxValueTracker::new(m),
        min_store: literal_store(m, l),
        g,
        permut_generator: FYshuffle::new(m),
        counter: HashMap::with_hasher(random_state(keys.0, keys.1)),
        seed_rng: thread_rng_placeholder(),
        seed,
    }
}

// =====================================================================================
// C11 — store level: one (element, occurrence) pair offered to one position
// =====================================================================================
//   Inv(store, tracker): per position the l values are sorted ascending, tracker slot == l-th value,
//   tracker invariant (C15)

fn any_store<const M: usize, const L: usize>() -> (OrdMinHashStore<f64>, MaxValueTracker<f64>) {
    let mut st = literal_store(M, L);
    let mut tr = MaxValueTracker::<f64>::new(M);
    for p in 0..M {
        for j in 0..L {
            st.values[p * L + j] = any_f64_nonnan();
            st.indices[p * L + j] = kani::any();
            if j > 0 {
                kani::assume(st.values[p * L + j - 1] <= st.values[p * L + j]);
            }
        }
        mvk::set_leaf_f64(&mut tr, p, st.values[p * L + L - 1]);
    }
    mvk::rebuild_f64(&mut tr);
    (st, tr)
}

fn c11_store_step<const M: usize, const L: usize>() {
    let (mut st, mut tr) = any_store::<M, L>();
    let mut ov = [[0f64; L]; M];
    let mut oi = [[0u64; L]; M];
    for p in 0..M {
        for j in 0..L {
            ov[p][j] = st.values[p * L + j];
            oi[p][j] = st.indices[p * L + j];
        }
    }
    let pos = any_below(M);
    let x = any_f64_nonnan();
    let idx: usize = kani::any();
    kani::assume(idx < (1usize << 32));
    let mut inserted = false;
    for p0 in 0..M {
        if p0 == pos {
            inserted = st.update_with_maxtracker(p0, &x, idx, &mut tr);
        }
    }
    // the pair enters the position iff it beats the current l-th smallest value
    assert!(inserted == (x < ov[pos][L - 1]));
    for p in 0..M {
        // lists stay sorted, tracker slot == l-th value
        for j in 1..L {
            assert!(st.values[p * L + j - 1] <= st.values[p * L + j]);
        }
        assert!(tr.get_value(p) == fmin(tr.get_value(p), st.values[p * L + L - 1]));
        if p != pos || !inserted {
            for j in 0..L {
                assert!(beq(st.values[p * L + j], ov[p][j]) && st.indices[p * L + j] == oi[p][j]);
            }
        } else {
            // new content = old content with (x, idx) inserted in order and the largest dropped
            let mut seen_new = false;
            let mut src = 0;
            for j in 0..L {
                if !seen_new && x < ov[p][src] {
                    assert!(st.values[p * L + j] == x && st.indices[p * L + j] == idx as u64);
                    seen_new = true;
                } else {
                    assert!(beq(st.values[p * L + j], ov[p][src]) && st.indices[p * L + j] == oi[p][src]);
                    src += 1;
                }
            }
            assert!(seen_new);
            assert!(tr.get_value(p) == st.values[p * L + L - 1]);
        }
    }
    assert!(mvk::tracker_inv_f64(&tr));
    kani::cover!(inserted && st.values[pos * L] == x, "witness: inserted at the front");
    kani::cover!(!inserted, "witness: rejected");
    std::mem::forget(st);
}

#[kani::proof]
#[kani::unwind(5)]
fn c11_store_m2_l1() {
    c11_store_step::<2, 1>();
}
#[kani::proof]
#[kani::unwind(6)]
fn c11_store_m2_l2() {
    c11_store_step::<2, 2>();
}
#[kani::proof]
#[kani::unwind(12)]
fn c11_store_m3_l3() {
    c11_store_step::<3, 3>();
}

// =====================================================================================
// C11 / C12 / C13 — hash_set end to end at tiny size
// NOT REGISTERED: these harnesses do not leave symbolic execution within 60 min (std HashMap / hashbrown SIMD
// probing); kept for reference, see DESIGN.md.
// =====================================================================================

/// Element labels and the RandomState keys are concrete (the per-pair generator is an oracle, so labels
/// carry no information beyond being distinct); every generator output - all Exp(1) values, all slot
/// choices of every (element, occurrence) pair - is symbolic.
///
/// l = 1: the signature is invariant under permutation of the sequence (two instances, same seed)
fn c11_hashset_perm_l1<const M: usize>() {
    let seed: u64 = 0x1234_5678_9abc_def0;
    let mut a = literal_pom(M, 1, seed, (0, 0));
    let mut b = literal_pom(M, 1, seed, (0, 0));
    let (x, y): (u64, u64) = (1, 2);
    let sa = a.hash_set(&[x, y]);
    let sb = b.hash_set(&[y, x]);
    assert!(sa.len() == M && sb.len() == M);
    for p in 0..M {
        assert!(sa[p] == sb[p]);
    }
    kani::cover!(sa[0] != sa[M - 1], "witness: the two positions select different elements");
    std::mem::forget(a);
    std::mem::forget(b);
}

/// repeated element: [x, x, y] vs [y, x, x] vs [x, y, x], l = 1
fn c11_hashset_perm_rep<const M: usize>() {
    let seed: u64 = 7;
    let mut a = literal_pom(M, 1, seed, (0, 0));
    let mut b = literal_pom(M, 1, seed, (0, 0));
    let mut c = literal_pom(M, 1, seed, (0, 0));
    let (x, y): (u64, u64) = (1, 2);
    let sa = a.hash_set(&[x, x, y]);
    let sb = b.hash_set(&[y, x, x]);
    let sc = c.hash_set(&[x, y, x]);
    for p in 0..M {
        assert!(sa[p] == sb[p] && sa[p] == sc[p]);
    }
    kani::cover!(sa[0] != sa[M - 1], "witness");
    std::mem::forget(a);
    std::mem::forget(b);
    std::mem::forget(c);
}

/// C13 (self-clearing) + C12 (two instances, different per-process hash keys): an instance that already
/// hashed another sequence and a fresh instance with other RandomState keys give the same signature
fn c13_hashset_dirty<const M: usize, const L: usize>() {
    let seed: u64 = 99;
    let mut a = literal_pom(M, L, seed, (0, 0));
    let mut b = literal_pom(M, L, seed, (0x0123456789abcdef, 0xfedcba9876543210));
    let _ = a.hash_set(&[5u64, 6u64]);
    let sa = a.hash_set(&[1u64, 2u64]);
    let sb = b.hash_set(&[1u64, 2u64]);
    for p in 0..M {
        assert!(sa[p] == sb[p]);
    }
    kani::cover!(sa[0] != sa[M - 1] || L > 1, "witness");
    std::mem::forget(a);
    std::mem::forget(b);
}

#[kani::proof]
#[kani::unwind(6)]
fn c11_hashset_perm_l1_m2() {
    c11_hashset_perm_l1::<2>();
}
#[kani::proof]
#[kani::unwind(7)]
fn c11_hashset_perm_l1_m3() {
    c11_hashset_perm_l1::<3>();
}
#[kani::proof]
#[kani::unwind(6)]
fn c11_hashset_perm_rep_m2() {
    c11_hashset_perm_rep::<2>();
}
#[kani::proof]
#[kani::unwind(6)]
fn c13_hashset_dirty_m2_l1() {
    c13_hashset_dirty::<2, 1>();
}
#[kani::proof]
#[kani::unwind(6)]
fn c13_hashset_dirty_m2_l2() {
    c13_hashset_dirty::<2, 2>();
}
