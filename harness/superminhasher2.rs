//! Kani harnesses for `crate::superminhasher2` (child module: private fields visible).
use super::*;
#[allow(unused_imports)]
use crate::verif_common::*;

pub(crate) type Smh2 = SuperMinHash2<u64, u64, NoHashHasher>;

fn c14_free2<const N: usize>() {
    let a: [u64; N] = kani::any();
    let b: [u64; N] = kani::any();
    let va = a.to_vec();
    let vb = b.to_vec();
    let r = compute_superminhash_jaccard(&va, &vb);
    let mut c = 0usize;
    for i in 0..N {
        if a[i] == b[i] {
            c += 1;
        }
    }
    assert!(r == Ok(c as f32 / N as f32));
    assert!(compute_superminhash_jaccard(&vb, &va) == r);
    assert!(compute_superminhash_jaccard(&va, &va) == Ok(1.0));
    // shorter second argument: reported, not computed on a prefix
    let mut vs = b.to_vec();
    vs.truncate(N - 1);
    assert!(compute_superminhash_jaccard(&va, &vs).is_err());
    assert!(compute_superminhash_jaccard(&vs, &va).is_err());
    kani::cover!(c == 1, "witness");
}

fn c14_method2<const M: usize>() {
    let mut s = Smh2::new(M, BuildHasherDefault::<NoHashHasher>::default());
    let b: [u64; M] = kani::any();
    for i in 0..M {
        s.hsketch[i] = kani::any();
    }
    let vb = b.to_vec();
    let r = s.get_jaccard_index_estimate(&vb);
    let mut c = 0usize;
    for i in 0..M {
        if s.hsketch[i] == b[i] {
            c += 1;
        }
    }
    assert!(r == Ok(c as f64 / M as f64));
    let own = s.hsketch.clone();
    assert!(s.get_jaccard_index_estimate(&own) == Ok(1.0));
    let mut vs = b.to_vec();
    vs.truncate(M - 1);
    assert!(s.get_jaccard_index_estimate(&vs).is_err());
    kani::cover!(c == 1, "witness");
}

#[kani::proof]
#[kani::unwind(6)]
fn c14_smh2_free_n3() {
    c14_free2::<3>();
}
#[kani::proof]
#[kani::unwind(7)]
fn c14_smh2_free_n4() {
    c14_free2::<4>();
}
#[kani::proof]
#[kani::unwind(6)]
fn c14_smh2_method_m3() {
    c14_method2::<3>();
}

// =====================================================================================
// C13 — reinit() from arbitrary content == new(size)
// =====================================================================================
use crate::fyshuffle::verif_kani as fyk;

pub(crate) fn garbage_smh2(m: usize) -> Smh2 {
    let mut s = Smh2::new(m, BuildHasherDefault::<NoHashHasher>::default());
    for i in 0..m {
        s.hsketch[i] = kani::any();
        s.values[i] = kani::any();
        s.l[i] = kani::any();
        s.b[i] = kani::any();
    }
    s.item_rank = kani::any();
    s.a_upper = kani::any();
    s.permut_generator = fyk::garbage_shuffle(m);
    s
}

/// field-wise equality (exhaustive patterns: a new field breaks compilation instead of being skipped);
/// the shuffle is compared up to its two fresh representations (C17 shows they draw identically)
pub(crate) fn fresh_state_smh2(x: &Smh2, m: usize) -> bool {
    let SuperMinHash2 { hsketch, values, l, b, item_rank, a_upper, permut_generator, b_hasher: _, t_marker: _, f_marker: _ } = x;
    let mut ok = hsketch.len() == m && values.len() == m && l.len() == m && b.len() == m;
    ok = ok && *item_rank == 0 && *a_upper == m - 1 && fyk::is_fresh(permut_generator, m);
    if ok {
        for i in 0..m {
            ok = ok && hsketch[i] == 0 && values[i] == usize::MAX && l[i] == m - 1 && b[i] == if i == m - 1 { m } else { 0 };
        }
    }
    ok
}

fn c13_reinit2<const M: usize>() {
    let mut s = garbage_smh2(M);
    s.reinit();
    assert!(fresh_state_smh2(&s, M));
    let n = Smh2::new(M, BuildHasherDefault::<NoHashHasher>::default());
    assert!(fresh_state_smh2(&n, M));
    kani::cover!(true, "witness");
}

#[kani::proof]
#[kani::unwind(5)]
fn c13_smh2_m2() {
    c13_reinit2::<2>();
}
#[kani::proof]
#[kani::unwind(6)]
fn c13_smh2_m3() {
    c13_reinit2::<3>();
}
#[kani::proof]
#[kani::unwind(8)]
fn c13_smh2_m5() {
    c13_reinit2::<5>();
}
#[kani::proof]
#[kani::unwind(4)]
fn c13_smh2_m1() {
    c13_reinit2::<1>();
}

// =====================================================================================
// C04 — one SuperMinHash2::sketch call is the position-wise lexicographic MIN of (level, value) with the
// item's unpruned contribution; the stored hash follows; invariant kept
// =====================================================================================
//
//   Inv:  l[k] <= m-1;  b[j] == #{k : l[k] == j};  a_upper == max{ j : b[j] > 0 }
use rand_xoshiro::Xoshiro256PlusPlus as Xo;

pub(crate) fn any_inv_smh2<const M: usize>() -> Smh2 {
    let mut s = Smh2::new(M, BuildHasherDefault::<NoHashHasher>::default());
    for k in 0..M {
        s.hsketch[k] = kani::any();
        s.values[k] = kani::any();
        let lk: usize = kani::any();
        kani::assume(lk < M);
        s.l[k] = lk;
        s.b[k] = 0;
    }
    for k in 0..M {
        for j in 0..M {
            if s.l[k] == j {
                s.b[j] += 1;
            }
        }
    }
    let mut au = 0;
    for j in 0..M {
        if s.b[j] > 0 {
            au = j;
        }
    }
    s.a_upper = au;
    s.item_rank = kani::any();
    kani::assume(s.item_rank < (1usize << 40));
    // the permutation generator may be in any state left by the previous item
    s.permut_generator = fyk::any_shuffle(M);
    s
}

pub(crate) fn inv_smh2<const M: usize>(s: &Smh2) -> bool {
    let mut hist = [0usize; M];
    let mut ok = s.hsketch.len() == M && s.values.len() == M && s.l.len() == M && s.b.len() == M;
    for k in 0..M {
        ok = ok && s.l[k] < M;
        for j in 0..M {
            if s.l[k] == j {
                hist[j] += 1;
            }
        }
    }
    let mut au = 0;
    for j in 0..M {
        ok = ok && s.b[j] == hist[j];
        if hist[j] > 0 {
            au = j;
        }
    }
    ok && s.a_upper == au
}

fn c04_smh2_step<const M: usize>() {
    let mut s = any_inv_smh2::<M>();
    let mut ol = [0usize; M];
    let mut ov = [0usize; M];
    let mut oh = [0u64; M];
    for k in 0..M {
        ol[k] = s.l[k];
        ov[k] = s.values[k];
        oh[k] = s.hsketch[k];
    }
    let rank0 = s.item_rank;
    let item: u64 = kani::any();
    let r = s.sketch(&item);
    assert!(r.is_ok());
    // reference: (level j, value r_j) lands on position k_j of the item's permutation, all m levels
    let hval = nohash(item);
    let mut rng = Xo::seed_from_u64(hval);
    let mut perm = FYshuffle::new(M);
    let mut cl = [0usize; M];
    let mut cv = [0usize; M];
    for j in 0..M {
        // Uniform<u64>(0, usize::MAX): hi word of draw * (2^64 - 1) == draw - 1 (draw 0 is rejected)
        let d = rand_xoshiro::oracle::draw(rng.id, rng.ctr);
        let rj = Uniform::new(0u64, usize::MAX as u64).unwrap().sample(&mut rng) as usize;
        assert!(rj as u64 == d - 1);
        let k = perm.next(&mut rng);
        for k0 in 0..M {
            if k0 == k {
                cl[k0] = j;
                cv[k0] = rj;
            }
        }
    }
    for k in 0..M {
        let take = ol[k] > cl[k] || (ol[k] == cl[k] && cv[k] <= ov[k]);
        if take {
            assert!(s.l[k] == cl[k] && s.values[k] == cv[k] && s.hsketch[k] == hval);
        } else {
            assert!(s.l[k] == ol[k] && s.values[k] == ov[k] && s.hsketch[k] == oh[k]);
        }
        // every stored hash is the old content or the hash of the streamed item
        assert!(s.hsketch[k] == oh[k] || s.hsketch[k] == hval);
    }
    assert!(inv_smh2::<M>(&s));
    assert!(s.item_rank == rank0 + 1);
    kani::cover!(s.hsketch[0] == hval && oh[0] != hval && (M < 2 || s.hsketch[M - 1] == oh[M - 1] && oh[M - 1] != hval), "witness: one position taken, another kept");
}

/// from the fresh state the first item writes its hash on every position
fn c04_smh2_first<const M: usize>() {
    let mut s = Smh2::new(M, BuildHasherDefault::<NoHashHasher>::default());
    let item: u64 = kani::any();
    assert!(s.sketch(&item).is_ok());
    for k in 0..M {
        assert!(s.hsketch[k] == nohash(item));
    }
    assert!(inv_smh2::<M>(&s));
    kani::cover!(s.l[0] == M - 1, "witness");
}

#[kani::proof]
#[kani::unwind(5)]
fn c04_smh2_step_m2() {
    c04_smh2_step::<2>();
}
#[kani::proof]
#[kani::unwind(6)]
fn c04_smh2_step_m3() {
    c04_smh2_step::<3>();
}
#[kani::proof]
#[kani::unwind(7)]
fn c04_smh2_step_m4() {
    c04_smh2_step::<4>();
}
#[kani::proof]
#[kani::unwind(6)]
fn c04_smh2_first_m3() {
    c04_smh2_first::<3>();
}

// C12 part 1 — two instances, same input, identical sketches
fn c12_two_instances2<const M: usize>() {
    let mut a = Smh2::new(M, BuildHasherDefault::<NoHashHasher>::default());
    let mut b = Smh2::new(M, BuildHasherDefault::<NoHashHasher>::default());
    let x: u64 = kani::any();
    assert!(a.sketch(&x).is_ok());
    assert!(b.sketch(&x).is_ok());
    for k in 0..M {
        assert!(a.get_hsketch()[k] == b.get_hsketch()[k]);
        assert!(a.values[k] == b.values[k] && a.l[k] == b.l[k] && a.b[k] == b.b[k]);
    }
    assert!(a.a_upper == b.a_upper && a.item_rank == b.item_rank);
    kani::cover!(a.l[0] == 0, "witness");
}
#[kani::proof]
#[kani::unwind(5)]
fn c12_smh2_m2() {
    c12_two_instances2::<2>();
}
