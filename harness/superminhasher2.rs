//! Kani harnesses for `crate::superminhasher2` (child module: private fields visible).
use super::*;
#[allow(unused_imports)]
use crate::verif_common::*;

pub(crate) type Smh2 = SuperMinHash2<u64, u64, NoHashHasher>;

fn c14_free2<const N: usize>() {
    let a: [u64; N] = kani::any();
    let b: [u64; N] = kani::any();
    let va = a.to_vec();
    let vb = b.to_vec();
    let r = compute_superminhash_jaccard(&va, &vb);
    let mut c = 0usize;
    for i in 0..N {
        if a[i] == b[i] {
            c += 1;
        }
    }
    assert!(r == Ok(c as f32 / N as f32));
    assert!(compute_superminhash_jaccard(&vb, &va) == r);
    assert!(compute_superminhash_jaccard(&va, &va) == Ok(1.0));
    // shorter second argument: reported, not computed on a prefix
    let mut vs = b.to_vec();
    vs.truncate(N - 1);
    assert!(compute_superminhash_jaccard(&va, &vs).is_err());
    assert!(compute_superminhash_jaccard(&vs, &va).is_err());
    kani::cover!(c == 1, "witness");
}

fn c14_method2<const M: usize>() {
    let mut s = Smh2::new(M, BuildHasherDefault::<NoHashHasher>::default());
    let b: [u64; M] = kani::any();
    for i in 0..M {
        s.hsketch[i] = kani::any();
    }
    let vb = b.to_vec();
    let r = s.get_jaccard_index_estimate(&vb);
    let mut c = 0usize;
    for i in 0..M {
        if s.hsketch[i] == b[i] {
            c += 1;
        }
    }
    assert!(r == Ok(c as f64 / M as f64));
    let own = s.hsketch.clone();
    assert!(s.get_jaccard_index_estimate(&own) == Ok(1.0));
    let mut vs = b.to_vec();
    vs.truncate(M - 1);
    assert!(s.get_jaccard_index_estimate(&vs).is_err());
    kani::cover!(c == 1, "witness");
}

#[kani::proof]
#[kani::unwind(6)]
fn c14_smh2_free_n3() {
    c14_free2::<3>();
}
#[kani::proof]
#[kani::unwind(7)]
fn c14_smh2_free_n4() {
    c14_free2::<4>();
}
#[kani::proof]
#[kani::unwind(6)]
fn c14_smh2_method_m3() {
    c14_method2::<3>();
}

// =====================================================================================
// C13 — reinit() from arbitrary content == new(size)
// =====================================================================================
use crate::fyshuffle::verif_kani as fyk;

pub(crate) fn garbage_smh2(m: usize) -> Smh2 {
    let mut s = Smh2::new(m, BuildHasherDefault::<NoHashHasher>::default());
    for i in 0..m {
        s.hsketch[i] = kani::any();
        s.values[i] = kani::any();
        s.l[i] = kani::any();
        s.b[i] = kani::any();
    }
    s.item_rank = kani::any();
    s.a_upper = kani::any();
    s.permut_generator = fyk::garbage_shuffle(m);
    s
}

/// field-wise equality (exhaustive patterns: a new field breaks compilation instead of being skipped);
/// the shuffle is compared up to its two fresh representations (C17 shows they draw identically)
pub(crate) fn fresh_state_smh2(x: &Smh2, m: usize) -> bool {
    let SuperMinHash2 { hsketch, values, l, b, item_rank, a_upper, permut_generator, b_hasher: _, t_marker: _, f_marker: _ } = x;
    let mut ok = hsketch.len() == m && values.len() == m && l.len() == m && b.len() == m;
    ok = ok && *item_rank == 0 && *a_upper == m - 1 && fyk::is_fresh(permut_generator, m);
    if ok {
        for i in 0..m {
            ok = ok && hsketch[i] == 0 && values[i] == usize::MAX && l[i] == m - 1 && b[i] == if i == m - 1 { m } else { 0 };
        }
    }
    ok
}

fn c13_reinit2<const M: usize>() {
    let mut s = garbage_smh2(M);
    s.reinit();
    assert!(fresh_state_smh2(&s, M));
    let n = Smh2::new(M, BuildHasherDefault::<NoHashHasher>::default());
    assert!(fresh_state_smh2(&n, M));
    kani::cover!(true, "witness");
}

#[kani::proof]
#[kani::unwind(5)]
fn c13_smh2_m2() {
    c13_reinit2::<2>();
}
#[kani::proof]
#[kani::unwind(6)]
fn c13_smh2_m3() {
    c13_reinit2::<3>();
}
#[kani::proof]
#[kani::unwind(8)]
fn c13_smh2_m5() {
    c13_reinit2::<5>();
}
#[kani::proof]
#[kani::unwind(4)]
fn c13_smh2_m1() {
    c13_reinit2::<1>();
}
