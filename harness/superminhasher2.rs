//! Kani harnesses for `crate::superminhasher2` (child module: private fields visible).
use super::*;
#[allow(unused_imports)]
use crate::verif_common::*;

pub(crate) type Smh2 = SuperMinHash2<u64, u64, NoHashHasher>;

fn c14_free2<const N: usize>() {
    let a: [u64; N] = kani::any();
    let b: [u64; N] = kani::any();
    let va = a.to_vec();
    let vb = b.to_vec();
    let r = compute_superminhash_jaccard(&va, &vb);
    let mut c = 0usize;
    for i in 0..N {
        if a[i] == b[i] {
            c += 1;
        }
    }
    assert!(r == Ok(c as f32 / N as f32));
    assert!(compute_superminhash_jaccard(&vb, &va) == r);
    assert!(compute_superminhash_jaccard(&va, &va) == Ok(1.0));
    // shorter second argument: reported, not computed on a prefix
    let mut vs = b.to_vec();
    vs.truncate(N - 1);
    assert!(compute_superminhash_jaccard(&va, &vs).is_err());
    assert!(compute_superminhash_jaccard(&vs, &va).is_err());
    kani::cover!(c == 1, "witness");
}

fn c14_method2<const M: usize>() {
    let mut s = Smh2::new(M, BuildHasherDefault::<NoHashHasher>::default());
    let b: [u64; M] = kani::any();
    for i in 0..M {
        s.hsketch[i] = kani::any();
    }
    let vb = b.to_vec();
    let r = s.get_jaccard_index_estimate(&vb);
    let mut c = 0usize;
    for i in 0..M {
        if s.hsketch[i] == b[i] {
            c += 1;
        }
    }
    assert!(r == Ok(c as f64 / M as f64));
    let own = s.hsketch.clone();
    assert!(s.get_jaccard_index_estimate(&own) == Ok(1.0));
    let mut vs = b.to_vec();
    vs.truncate(M - 1);
    assert!(s.get_jaccard_index_estimate(&vs).is_err());
    kani::cover!(c == 1, "witness");
}

#[kani::proof]
#[kani::unwind(6)]
fn c14_smh2_free_n3() {
    c14_free2::<3>();
}
#[kani::proof]
#[kani::unwind(7)]
fn c14_smh2_free_n4() {
    c14_free2::<4>();
}
#[kani::proof]
#[kani::unwind(6)]
fn c14_smh2_method_m3() {
    c14_method2::<3>();
}
