//! C17 — Kani harnesses for the lazy Fisher-Yates shuffle (child module of `crate::fyshuffle`).
//! Generator = the Xoshiro oracle model (any u64 per draw); `rand::distr::Uniform<f64>` is the real code.
use super::*;
use crate::verif_common::*;
use rand::SeedableRng;
use rand_xoshiro::Xoshiro256PlusPlus;

/// arbitrary reachable state: `v` a permutation of 0..m, `lastidx <= m`
pub(crate) fn any_shuffle(m: usize) -> FYshuffle {
    let mut f = FYshuffle::new(m);
    for i in 0..m {
        let x: usize = kani::any();
        kani::assume(x < m);
        f.v[i] = x;
    }
    for i in 0..m {
        for j in 0..i {
            kani::assume(f.v[i] != f.v[j]);
        }
    }
    let l: usize = kani::any();
    kani::assume(l <= m);
    f.lastidx = l;
    f
}

/// arbitrary content, no invariant at all (for reset)
pub(crate) fn garbage_shuffle(m: usize) -> FYshuffle {
    let mut f = FYshuffle::new(m);
    for i in 0..m {
        f.v[i] = kani::any();
    }
    f.lastidx = kani::any();
    f
}

pub(crate) fn is_perm(f: &FYshuffle) -> bool {
    let m = f.m;
    let mut ok = f.v.len() == m;
    for i in 0..m {
        ok = ok && f.v[i] < m;
        for j in 0..i {
            ok = ok && f.v[i] != f.v[j];
        }
    }
    ok
}

/// state in which the next draw starts a new permutation from the identity: what `new` and `reset` produce
pub(crate) fn is_fresh(f: &FYshuffle, m: usize) -> bool {
    let mut ok = f.m == m && f.v.len() == m && (f.lastidx == 0 || f.lastidx >= m);
    for i in 0..m {
        ok = ok && f.v[i] == i;
    }
    ok && f.unif_01 == Uniform::<f64>::new(0., 1.).unwrap()
}

pub(crate) fn lastidx(f: &FYshuffle) -> usize {
    f.lastidx
}
pub(crate) fn value_at(f: &FYshuffle, i: usize) -> usize {
    f.v[i]
}

/// (a) one draw from any reachable state
fn step<const M: usize>() {
    let mut f = any_shuffle(M);
    let mut old = [0usize; M];
    for i in 0..M {
        old[i] = f.v[i];
    }
    let l0 = if f.lastidx >= M { 0 } else { f.lastidx };
    let seed: u64 = kani::any();
    let mut rng = Xoshiro256PlusPlus::seed_from_u64(seed);
    let val = f.next(&mut rng);
    // exactly one generator draw is consumed per call
    assert!(rng.consumed() == 1);
    assert!(is_perm(&f));
    assert!(f.lastidx == l0 + 1);
    assert!(val < M);
    assert!(f.v[l0] == val);
    // positions already drawn in the current block are untouched
    for i in 0..M {
        if i < l0 {
            assert!(f.v[i] == old[i]);
        }
    }
    // the value comes from the not-yet-drawn suffix
    let mut from_suffix = false;
    for i in 0..M {
        if i >= l0 && old[i] == val {
            from_suffix = true;
        }
    }
    assert!(from_suffix);
    // the draw is the documented function of the generator output: idx = l0 + floor(u * (m - l0)),
    // u = (bits >> 12) * 2^-52
    let bits = rand_xoshiro::oracle::draw(0, 0);
    let u = ((bits >> 12) as f64) * (1.0 / 4503599627370496.0);
    let idx = l0 + (u * (M - l0) as f64) as usize;
    assert!(idx < M);
    assert!(old[idx] == val);
    kani::cover!(l0 == M - 1 || M == 1, "witness: last draw of a block");
}

/// (b) reset from arbitrary content gives the fresh state; new gives the fresh state;
/// the two fresh representations (lastidx 0 / lastidx m) draw identically
fn reset_is_new<const M: usize>() {
    let mut g = garbage_shuffle(M);
    g.reset();
    assert!(is_fresh(&g, M));
    let mut n = FYshuffle::new(M);
    assert!(is_fresh(&n, M));
    let seed: u64 = kani::any();
    let mut r1 = Xoshiro256PlusPlus::seed_from_u64(seed);
    let mut r2 = Xoshiro256PlusPlus::seed_from_u64(seed);
    let a = g.next(&mut r1);
    let b = n.next(&mut r2);
    assert!(a == b);
    assert!(g.lastidx == n.lastidx);
    for i in 0..M {
        assert!(g.v[i] == n.v[i]);
    }
    kani::cover!(a == M - 1, "witness");
}

/// (c1) cells of the slot map u -> floor(u*n) have equal length up to 2 grid points of 2^-52:
/// with k = u*2^52, the float slot differs from the exact slot floor(k*n / 2^52) only within 2 grid
/// points below a cell boundary, and never reaches n.
fn slot_cells<const N: usize>() {
    let k: u64 = kani::any();
    kani::assume(k < (1u64 << 52));
    let u = (k as f64) * (1.0 / 4503599627370496.0);
    let slot = (u * N as f64) as usize;
    let prod = k * (N as u64); // < 2^56, exact
    let exact = (prod >> 52) as usize;
    let frac = prod & ((1u64 << 52) - 1);
    assert!(slot < N);
    assert!(slot == exact || (slot == exact + 1 && frac >= (1u64 << 52) - 2));
    kani::cover!(slot == N - 1, "witness: top cell reached");
}

/// (c2) a full block from the fresh state: the m returned values are pairwise distinct and equal the
/// final content of v; two generators whose slot choices differ somewhere give different permutations
/// (choice vector -> permutation is injective, so uniform choices give uniform permutations)
fn block_injective<const M: usize>() {
    let s1: u64 = kani::any();
    let s2: u64 = kani::any();
    let mut r1 = Xoshiro256PlusPlus::seed_from_u64(s1);
    let mut r2 = Xoshiro256PlusPlus::seed_from_u64(s2);
    let mut f1 = FYshuffle::new(M);
    let mut f2 = FYshuffle::new(M);
    let mut out1 = [0usize; M];
    let mut out2 = [0usize; M];
    let mut same_choices = true;
    for j in 0..M {
        // slot choice of draw j, recomputed from the generator output
        let b1 = rand_xoshiro::oracle::draw(r1.id, j);
        let b2 = rand_xoshiro::oracle::draw(r2.id, j);
        let u1 = ((b1 >> 12) as f64) * (1.0 / 4503599627370496.0);
        let u2 = ((b2 >> 12) as f64) * (1.0 / 4503599627370496.0);
        let c1 = (u1 * (M - j) as f64) as usize;
        let c2 = (u2 * (M - j) as f64) as usize;
        same_choices = same_choices && c1 == c2;
        out1[j] = f1.next(&mut r1);
        out2[j] = f2.next(&mut r2);
    }
    let mut same_perm = true;
    for j in 0..M {
        assert!(f1.get_values()[j] == out1[j]);
        for i in 0..j {
            assert!(out1[i] != out1[j]);
        }
        same_perm = same_perm && out1[j] == out2[j];
    }
    assert!(same_perm == same_choices);
    kani::cover!(!same_perm, "witness: two different permutations");
}

macro_rules! fy_harness {
    ($step:ident, $reset:ident, $cells:ident, $m:expr, $unw:expr) => {
        #[kani::proof]
        #[kani::unwind($unw)]
        fn $step() {
            step::<$m>();
        }
        #[kani::proof]
        #[kani::unwind($unw)]
        fn $reset() {
            reset_is_new::<$m>();
        }
        #[kani::proof]
        #[kani::unwind($unw)]
        fn $cells() {
            slot_cells::<$m>();
        }
    };
}
fy_harness!(c17_step_m1, c17_reset_m1, c17_cells_n1, 1, 3);
fy_harness!(c17_step_m2, c17_reset_m2, c17_cells_n2, 2, 4);
fy_harness!(c17_step_m3, c17_reset_m3, c17_cells_n3, 3, 5);
fy_harness!(c17_step_m4, c17_reset_m4, c17_cells_n4, 4, 6);
fy_harness!(c17_step_m5, c17_reset_m5, c17_cells_n5, 5, 7);
fy_harness!(c17_step_m6, c17_reset_m6, c17_cells_n6, 6, 8);
fy_harness!(c17_step_m7, c17_reset_m7, c17_cells_n7, 7, 9);

#[kani::proof]
#[kani::unwind(4)]
fn c17_block_m2() {
    block_injective::<2>();
}
#[kani::proof]
#[kani::unwind(5)]
fn c17_block_m3() {
    block_injective::<3>();
}
#[kani::proof]
#[kani::unwind(6)]
fn c17_block_m4() {
    block_injective::<4>();
}
