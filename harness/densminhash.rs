//! Kani harnesses for `crate::densminhash` (child module: private fields visible).
use super::*;
#[allow(unused_imports)]
use crate::verif_common::*;
use crate::superminhasher::NoHashHasher;

pub(crate) type Opt64 = OptDensMinHash<f64, u64, NoHashHasher>;
pub(crate) type Rev64 = RevOptDensMinHash<f64, u64, NoHashHasher>;

// =====================================================================================
// C13 — reinit() from arbitrary content == new(size)
// =====================================================================================
macro_rules! c13_dens {
    ($fname:ident, $ty:ident, $alias:ty) => {
        fn $fname<const M: usize>() {
            let mut s: $alias = $ty::new(M, BuildHasherDefault::<NoHashHasher>::default());
            for i in 0..M {
                s.hsketch[i] = kani::any();
                s.values[i] = kani::any();
                s.init[i] = kani::any();
            }
            s.nb_empty = kani::any();
            s.reinit();
            let n: $alias = $ty::new(M, BuildHasherDefault::<NoHashHasher>::default());
            // exhaustive patterns: a new field breaks compilation instead of being skipped
            let $ty { hsketch, values, init, nb_empty, b_hasher: _, t_marker: _ } = &s;
            let $ty { hsketch: h2, values: v2, init: i2, nb_empty: n2, b_hasher: _, t_marker: _ } = &n;
            assert!(hsketch.len() == M && values.len() == M && init.len() == M);
            assert!(h2.len() == M && v2.len() == M && i2.len() == M);
            assert!(*nb_empty == M as i64 && *n2 == M as i64);
            for i in 0..M {
                assert!(hsketch[i] == u32::MAX as f64 && h2[i] == u32::MAX as f64);
                assert!(values[i] == u64::MAX && v2[i] == u64::MAX);
                assert!(!init[i] && !i2[i]);
            }
            kani::cover!(true, "witness");
        }
    };
}
c13_dens!(c13_opt, OptDensMinHash, Opt64);
c13_dens!(c13_rev, RevOptDensMinHash, Rev64);

#[kani::proof]
#[kani::unwind(5)]
fn c13_optdens_m3() {
    c13_opt::<3>();
}
#[kani::proof]
#[kani::unwind(7)]
fn c13_optdens_m5() {
    c13_opt::<5>();
}
#[kani::proof]
#[kani::unwind(5)]
fn c13_revdens_m3() {
    c13_rev::<3>();
}
#[kani::proof]
#[kani::unwind(7)]
fn c13_revdens_m5() {
    c13_rev::<5>();
}
#[kani::proof]
#[kani::unwind(3)]
fn c13_optdens_m1() {
    c13_opt::<1>();
}
#[kani::proof]
#[kani::unwind(3)]
fn c13_revdens_m1() {
    c13_rev::<1>();
}
