//! Kani harnesses for `crate::densminhash` (child module: private fields visible).
use super::*;
#[allow(unused_imports)]
use crate::verif_common::*;
use crate::superminhasher::NoHashHasher;

pub(crate) type Opt64 = OptDensMinHash<f64, u64, NoHashHasher>;
pub(crate) type Rev64 = RevOptDensMinHash<f64, u64, NoHashHasher>;

// =====================================================================================
// C13 — reinit() from arbitrary content == new(size)
// =====================================================================================
macro_rules! c13_dens {
    ($fname:ident, $ty:ident, $alias:ty) => {
        fn $fname<const M: usize>() {
            let mut s: $alias = $ty::new(M, BuildHasherDefault::<NoHashHasher>::default());
            for i in 0..M {
                s.hsketch[i] = kani::any();
                s.values[i] = kani::any();
                s.init[i] = kani::any();
            }
            s.nb_empty = kani::any();
            s.reinit();
            let n: $alias = $ty::new(M, BuildHasherDefault::<NoHashHasher>::default());
            // exhaustive patterns: a new field breaks compilation instead of being skipped
            let $ty { hsketch, values, init, nb_empty, b_hasher: _, t_marker: _ } = &s;
            let $ty { hsketch: h2, values: v2, init: i2, nb_empty: n2, b_hasher: _, t_marker: _ } = &n;
            assert!(hsketch.len() == M && values.len() == M && init.len() == M);
            assert!(h2.len() == M && v2.len() == M && i2.len() == M);
            assert!(*nb_empty == M as i64 && *n2 == M as i64);
            for i in 0..M {
                assert!(hsketch[i] == u32::MAX as f64 && h2[i] == u32::MAX as f64);
                assert!(values[i] == u64::MAX && v2[i] == u64::MAX);
                assert!(!init[i] && !i2[i]);
            }
            kani::cover!(true, "witness");
        }
    };
}
c13_dens!(c13_opt, OptDensMinHash, Opt64);
c13_dens!(c13_rev, RevOptDensMinHash, Rev64);

#[kani::proof]
#[kani::unwind(5)]
fn c13_optdens_m3() {
    c13_opt::<3>();
}
#[kani::proof]
#[kani::unwind(7)]
fn c13_optdens_m5() {
    c13_opt::<5>();
}
#[kani::proof]
#[kani::unwind(5)]
fn c13_revdens_m3() {
    c13_rev::<3>();
}
#[kani::proof]
#[kani::unwind(7)]
fn c13_revdens_m5() {
    c13_rev::<5>();
}
#[kani::proof]
#[kani::unwind(3)]
fn c13_optdens_m1() {
    c13_opt::<1>();
}
#[kani::proof]
#[kani::unwind(3)]
fn c13_revdens_m1() {
    c13_rev::<1>();
}

// =====================================================================================
// C04 / C09 — sketch step, densification, views
// =====================================================================================
//
// Representation invariant before densification (holds for new/reinit, preserved by sketch):
//   Inv:  nb_empty == #{k : !init[k]};  !init[k] => (hsketch[k], values[k]) == (u32::MAX as F, u64::MAX);
//          init[k] => 0 <= hsketch[k] < 1
use rand_chacha::oracle as cha;
use rand_xoshiro::Xoshiro256PlusPlus as Xo;

const LARGE: f64 = u32::MAX as f64;

macro_rules! dens_common {
    ($modname:ident, $ty:ident, $alias:ty) => {
        pub(crate) mod $modname {
            use super::*;

            /// arbitrary pre-densification state satisfying Inv whose populated bins are exactly those of the
            /// (concrete) bit mask: the population pattern is enumerated by harness instances, the contents
            /// of the bins are symbolic.  Concrete patterns keep the densification control flow and the
            /// oracle stream ids concrete (symbolic ones cost 5-7 M SAT variables per instance).
            pub(crate) fn any_state<const M: usize>(mask: usize) -> $alias {
                let mut s: $alias = $ty::new(M, BuildHasherDefault::<NoHashHasher>::default());
                let mut ne: i64 = 0;
                for k in 0..M {
                    let i: bool = (mask >> k) & 1 == 1;
                    s.init[k] = i;
                    if i {
                        let r = any_f64_in(0.0, 1.0);
                        kani::assume(r < 1.0);
                        s.hsketch[k] = r;
                        s.values[k] = kani::any();
                    } else {
                        ne += 1;
                    }
                }
                s.nb_empty = ne;
                s
            }

            /// same, population pattern symbolic (cheap enough for the single-call step harness)
            pub(crate) fn any_state_sym<const M: usize>() -> $alias {
                let mut s: $alias = $ty::new(M, BuildHasherDefault::<NoHashHasher>::default());
                let mut ne: i64 = 0;
                for k in 0..M {
                    let i: bool = kani::any();
                    s.init[k] = i;
                    if i {
                        let r = any_f64_in(0.0, 1.0);
                        kani::assume(r < 1.0);
                        s.hsketch[k] = r;
                        s.values[k] = kani::any();
                    } else {
                        ne += 1;
                    }
                }
                s.nb_empty = ne;
                s
            }

            pub(crate) fn inv<const M: usize>(s: &$alias) -> bool {
                let mut ne: i64 = 0;
                let mut ok = s.hsketch.len() == M && s.values.len() == M && s.init.len() == M;
                for k in 0..M {
                    if s.init[k] {
                        ok = ok && s.hsketch[k] >= 0.0 && s.hsketch[k] < 1.0;
                    } else {
                        ne += 1;
                        ok = ok && s.hsketch[k] == LARGE && s.values[k] == u64::MAX;
                    }
                }
                ok && s.nb_empty == ne
            }

            /// one `sketch` call: the bin chosen by the item keeps the smaller (r, hash) pair,
            /// every other bin is untouched, Inv kept; (r, bin) are the documented functions of the item's stream
            pub(crate) fn step<const M: usize>() {
                let mut s = any_state_sym::<M>();
                let mut oh = [0f64; M];
                let mut ov = [0u64; M];
                let mut oi = [false; M];
                for k in 0..M {
                    oh[k] = s.hsketch[k];
                    ov[k] = s.values[k];
                    oi[k] = s.init[k];
                }
                let it: u64 = kani::any();
                s.sketch(&it);
                // reference from the same per-item stream; the stored hash is the hasher's output
                let item = nohash(it);
                let mut rng = Xo::seed_from_u64(item);
                let r: f64 = Uniform::<f64>::new(0., 1.).unwrap().sample(&mut rng);
                let kk: usize = Uniform::<usize>::new(0, M).unwrap().sample(&mut rng);
                assert!(kk < M);
                for k in 0..M {
                    // lexicographic minimum of (r, hash): an exact tie on r between two different items is broken
                    // on the hash, so the bin content does not depend on the order of arrival
                    if k == kk && (r < oh[k] || (r == oh[k] && item <= ov[k])) {
                        assert!(s.hsketch[k] == r && s.values[k] == item && s.init[k]);
                    } else {
                        assert!(beq(s.hsketch[k], oh[k]) && s.values[k] == ov[k] && s.init[k] == oi[k]);
                    }
                    // min semantics: the bin holds the smaller of (old r, new r)
                    if k == kk {
                        assert!(s.hsketch[k] == if r < oh[k] { r } else { oh[k] });
                    }
                    // every stored hash is the old content or the streamed item
                    assert!(s.values[k] == ov[k] || s.values[k] == item);
                }
                assert!(inv::<M>(&s));
                kani::cover!(s.values[0] == item && oi[0] && ov[0] != item, "witness: a populated bin was overwritten");
                kani::cover!(s.values[M - 1] == ov[M - 1] && kk == M - 1 && oi[M - 1] && ov[M - 1] != item, "witness: a populated bin resisted");
            }

            /// the three views after finishing.  The stored hashes range over base ^ (x << 8) ^ (y << 40) with
            /// two symbolic bytes x, y per position (fully symbolic 64-bit inputs make the comparison of two
            /// murmur3 multiplier chains a SAT-hard equivalence problem: 900 s timeout measured)
            pub(crate) fn views<const M: usize>() {
                let mut s = any_state::<M>((1 << M) - 1);
                for k in 0..M {
                    let x: u8 = kani::any();
                    let y: u8 = kani::any();
                    s.values[k] = 0x9e3779b97f4a7c15u64 ^ ((x as u64) << 8) ^ ((y as u64) << 40);
                }
                let f = s.get_hsketch();
                let u = s.get_hsketch_u64();
                let w = s.get_hsketch_u32();
                assert!(f.len() == M && u.len() == M && w.len() == M);
                for k in 0..M {
                    assert!(beq(f[k], s.hsketch[k]));
                    assert!(u[k] == s.values[k]);
                    // the u32 view is one fixed function of the u64 view, the same at every position
                    let e = murmur3_32(&mut Cursor::new(s.values[k].to_ne_bytes()), 127).unwrap();
                    assert!(w[k] == e);
                    if s.values[k] == s.values[0] {
                        assert!(w[k] == w[0]);
                    }
                }
                kani::cover!(M > 1 && s.values[1] == s.values[0], "witness: two positions hold the same hash");
            }
        }
    };
}
dens_common!(optk, OptDensMinHash, Opt64);
dens_common!(revk, RevOptDensMinHash, Rev64);

/// OptDensMinHash::end_sketch from an arbitrary Inv-state with at least one populated bin.
/// Checked for every generator output for which each empty bin finds a populated bin within the
/// unwinding bound (harness runs with --no-unwinding-checks: longer searches are outside the claim).
fn c09_opt_densify<const M: usize, const MASK: usize>() {
    let mut s = optk::any_state::<M>(MASK);
    let mut oh = [0f64; M];
    let mut ov = [0u64; M];
    let mut oi = [false; M];
    for k in 0..M {
        oh[k] = s.hsketch[k];
        ov[k] = s.values[k];
        oi[k] = s.init[k];
    }
    s.end_sketch();
    assert!(s.nb_empty == 0);
    for k in 0..M {
        assert!(s.init[k]);
        if oi[k] {
            // populated bins are untouched, bit for bit
            assert!(beq(s.hsketch[k], oh[k]) && s.values[k] == ov[k]);
        } else {
            // filled with the (value, hash) pair of a bin that was populated before
            let mut found = false;
            for j in 0..M {
                if oi[j] && beq(s.hsketch[k], oh[j]) && s.values[k] == ov[j] {
                    found = true;
                }
            }
            assert!(found);
        }
    }
    // the densification stream of a bin is keyed by the bin position only
    // exactly the empty bins opened a stream, and its key is the bin position
    let mut nexp = 0;
    for k in 0..M {
        let slot = cha::slot_of_seed(k as u64 + 123743);
        if !oi[k] {
            nexp += 1;
            assert!(cha::is_used(slot) && cha::key_of(slot)[0] == k as u64 + 123743 && cha::kind_of(slot) == 112);
        }
    }
    assert!(cha::nb_streams() == nexp);
    // idempotent
    let mut h2 = [0f64; M];
    let mut v2 = [0u64; M];
    for k in 0..M {
        h2[k] = s.hsketch[k];
        v2[k] = s.values[k];
    }
    s.end_sketch();
    for k in 0..M {
        assert!(beq(s.hsketch[k], h2[k]) && s.values[k] == v2[k] && s.init[k]);
    }
    assert!(s.nb_empty == 0);
    kani::cover!(true, "witness: densification finished");
}

fn c09_rev_densify<const M: usize, const MASK: usize>() {
    let mut s = revk::any_state::<M>(MASK);
    let mut oh = [0f64; M];
    let mut ov = [0u64; M];
    let mut oi = [false; M];
    for k in 0..M {
        oh[k] = s.hsketch[k];
        ov[k] = s.values[k];
        oi[k] = s.init[k];
    }
    s.end_sketch();
    assert!(s.nb_empty == 0);
    for k in 0..M {
        assert!(s.init[k]);
        if oi[k] {
            assert!(beq(s.hsketch[k], oh[k]) && s.values[k] == ov[k]);
        } else {
            let mut found = false;
            for j in 0..M {
                if oi[j] && beq(s.hsketch[k], oh[j]) && s.values[k] == ov[j] {
                    found = true;
                }
            }
            assert!(found);
        }
    }
    // stream keys depend on (position, pass) only: (k+1)*m + pass + 253713 with pass >= 1
    // every stream that was opened is keyed by (position, pass number) only: all seeds lie in the range of
    // (k+1)*m + pass + 253713 for k < m, pass >= 1  (different (k, pass) may share a seed)
    let lo = M as u64 + 1 + 253713;
    let nfound = cha::count_seeds_in(lo, lo + 1000, 112);
    assert!(cha::nb_streams() == nfound);
    let mut h2 = [0f64; M];
    let mut v2 = [0u64; M];
    for k in 0..M {
        h2[k] = s.hsketch[k];
        v2[k] = s.values[k];
    }
    s.end_sketch();
    for k in 0..M {
        assert!(beq(s.hsketch[k], h2[k]) && s.values[k] == v2[k] && s.init[k]);
    }
    kani::cover!(true, "witness: densification finished");
}

/// sketch_slice(&[a, b]) == sketch(a); sketch(b); end_sketch()   (two fresh sketchers, shared oracle)
macro_rules! c09_slice_eq {
    ($fname:ident, $kmod:ident, $alias:ty) => {
        fn $fname<const M: usize>() {
            let mut x: $alias = <$alias>::new(M, BuildHasherDefault::<NoHashHasher>::default());
            let mut y: $alias = <$alias>::new(M, BuildHasherDefault::<NoHashHasher>::default());
            let items: [u64; 2] = kani::any();
            let r = strip(x.sketch_slice(&items));
            assert!(r.is_some());
            y.sketch(&items[0]);
            y.sketch(&items[1]);
            y.end_sketch();
            for k in 0..M {
                assert!(beq(x.hsketch[k], y.hsketch[k]) && x.values[k] == y.values[k] && x.init[k] && y.init[k]);
                assert!(x.values[k] == nohash(items[0]) || x.values[k] == nohash(items[1]));
            }
            assert!(x.nb_empty == 0 && y.nb_empty == 0);
            kani::cover!(x.values[0] == nohash(items[1]) && items[0] != items[1], "witness");
        }
    };
}
/// the same from an arbitrary pre-densification state with the given population pattern (one item).
/// The item's bin is made concrete (K0) by presetting the slot draw of its stream to a representative value
/// of that bin's cell: with a symbolic bin, `init[k]` and `nb_empty` become symbolic and the symbolic executor
/// explores densification from every state (out of memory).  The r draw and the item stay symbolic.
macro_rules! c09_slice_state {
    ($fname:ident, $kmod:ident, $alias:ty) => {
        fn $fname<const M: usize, const MASK: usize, const K0: usize>() {
            let mut x = $kmod::any_state::<M>(MASK);
            let mut y: $alias = <$alias>::new(M, BuildHasherDefault::<NoHashHasher>::default());
            for k in 0..M {
                y.hsketch[k] = x.hsketch[k];
                y.values[k] = x.values[k];
                y.init[k] = x.init[k];
            }
            y.nb_empty = x.nb_empty;
            // the item label is concrete (its stream is an oracle anyway; with a symbolic label the model cannot see
            // that the harness and the code seed with the same hash, and the slot becomes symbolic again)
            let items: [u64; 1] = [0x0123_4567_89ab_cdef];
            // stream of the item: cell 0 = r draw (symbolic), cell 1 = slot draw (representative of bin K0)
            let sid = rand_xoshiro::oracle::stream(2, [nohash(items[0]), 0, 0, 0]);
            let _r = rand_xoshiro::oracle::draw(sid, 0);
            let x32: u64 = (((K0 as u64) << 32) + (1u64 << 31)) / (M as u64);
            rand_xoshiro::oracle::preset(sid, 1, x32 << 32);
            let r = strip(x.sketch_slice(&items));
            assert!(r.is_some());
            y.sketch(&items[0]);
            if MASK != (1 << M) - 1 {
                y.end_sketch();
            }
            for k in 0..M {
                assert!(beq(x.hsketch[k], y.hsketch[k]) && x.values[k] == y.values[k] && x.init[k] == y.init[k]);
            }
            assert!(x.nb_empty == 0 && y.nb_empty == 0);
            kani::cover!(x.values[K0] == nohash(items[0]), "witness: the item took its bin");
            kani::cover!(x.values[K0] != nohash(items[0]), "witness: the item lost against the bin content");
        }
    };
}
c09_slice_state!(c09_opt_slice_state, optk, Opt64);
c09_slice_state!(c09_rev_slice_state, revk, Rev64);
c09_slice_eq!(c09_opt_slice, optk, Opt64);
c09_slice_eq!(c09_rev_slice, revk, Rev64);

/// nothing streamed: finishing must not hang.  With every bin empty the search loop has no exit, so
/// on an unrepaired tree the cover after the call is unreachable for every generator output; on a
/// repaired tree the call reports failure (panic / Err) without drawing anything.
fn c09_opt_empty<const M: usize>(slice: bool) {
    let mut s: Opt64 = OptDensMinHash::new(M, BuildHasherDefault::<NoHashHasher>::default());
    if slice {
        let e: [u64; 0] = [];
        let r = strip(s.sketch_slice(&e));
        assert!(r.is_none(), "an empty stream was 'finished' successfully");
    } else {
        s.end_sketch();
        assert!(false, "end_sketch returned normally on an empty stream");
    }
    assert!(cha::nb_streams() == 0);
    kani::cover!(true, "returned");
}
fn c09_rev_empty<const M: usize>(slice: bool) {
    let mut s: Rev64 = RevOptDensMinHash::new(M, BuildHasherDefault::<NoHashHasher>::default());
    if slice {
        let e: [u64; 0] = [];
        let r = strip(s.sketch_slice(&e));
        assert!(r.is_none(), "an empty stream was 'finished' successfully");
    } else {
        s.end_sketch();
        assert!(false, "end_sketch returned normally on an empty stream");
    }
    assert!(cha::nb_streams() == 0);
    kani::cover!(true, "returned");
}

macro_rules! dproof {
    ($name:ident, $unw:expr, $body:expr) => {
        #[kani::proof]
        #[kani::stub(std::backtrace::Backtrace::capture, crate::verif_common::no_backtrace)]
        #[kani::stub(<::anyhow::Error as std::ops::Drop>::drop, crate::verif_common::anyhow_drop_noop)]
        #[kani::unwind($unw)]
        fn $name() {
            $body
        }
    };
}
dproof!(c04_opt_step_m1, 4, optk::step::<1>());
dproof!(c04_opt_step_m2, 5, optk::step::<2>());
dproof!(c04_opt_step_m3, 6, optk::step::<3>());
dproof!(c04_opt_step_m4, 7, optk::step::<4>());
dproof!(c04_rev_step_m2, 5, revk::step::<2>());
dproof!(c04_rev_step_m3, 6, revk::step::<3>());
dproof!(c04_rev_step_m4, 7, revk::step::<4>());
dproof!(c09_opt_views_m2, 12, optk::views::<2>());
dproof!(c09_rev_views_m2, 12, revk::views::<2>());
dproof!(c09_opt_densify_m1_p1, 4, c09_opt_densify::<1, 1>());
dproof!(c09_opt_densify_m2_p1, 5, c09_opt_densify::<2, 1>());
dproof!(c09_opt_densify_m2_p2, 5, c09_opt_densify::<2, 2>());
dproof!(c09_opt_densify_m3_p1, 6, c09_opt_densify::<3, 1>());
dproof!(c09_opt_densify_m3_p2, 6, c09_opt_densify::<3, 2>());
dproof!(c09_opt_densify_m3_p3, 6, c09_opt_densify::<3, 3>());
dproof!(c09_opt_densify_m3_p4, 6, c09_opt_densify::<3, 4>());
dproof!(c09_opt_densify_m3_p5, 6, c09_opt_densify::<3, 5>());
dproof!(c09_opt_densify_m3_p6, 6, c09_opt_densify::<3, 6>());
dproof!(c09_opt_densify_m4_p1, 7, c09_opt_densify::<4, 1>());
dproof!(c09_opt_densify_m4_p2, 7, c09_opt_densify::<4, 2>());
dproof!(c09_opt_densify_m4_p3, 7, c09_opt_densify::<4, 3>());
dproof!(c09_opt_densify_m4_p4, 7, c09_opt_densify::<4, 4>());
dproof!(c09_opt_densify_m4_p5, 7, c09_opt_densify::<4, 5>());
dproof!(c09_opt_densify_m4_p6, 7, c09_opt_densify::<4, 6>());
dproof!(c09_opt_densify_m4_p7, 7, c09_opt_densify::<4, 7>());
dproof!(c09_opt_densify_m4_p8, 7, c09_opt_densify::<4, 8>());
dproof!(c09_opt_densify_m4_p9, 7, c09_opt_densify::<4, 9>());
dproof!(c09_opt_densify_m4_p10, 7, c09_opt_densify::<4, 10>());
dproof!(c09_opt_densify_m4_p11, 7, c09_opt_densify::<4, 11>());
dproof!(c09_opt_densify_m4_p12, 7, c09_opt_densify::<4, 12>());
dproof!(c09_opt_densify_m4_p13, 7, c09_opt_densify::<4, 13>());
dproof!(c09_opt_densify_m4_p14, 7, c09_opt_densify::<4, 14>());
dproof!(c09_rev_densify_m1_p1, 5, c09_rev_densify::<1, 1>());
dproof!(c09_rev_densify_m2_p1, 6, c09_rev_densify::<2, 1>());
dproof!(c09_rev_densify_m2_p2, 6, c09_rev_densify::<2, 2>());
dproof!(c09_rev_densify_m3_p1, 7, c09_rev_densify::<3, 1>());
dproof!(c09_rev_densify_m3_p2, 7, c09_rev_densify::<3, 2>());
dproof!(c09_rev_densify_m3_p3, 7, c09_rev_densify::<3, 3>());
dproof!(c09_rev_densify_m3_p4, 7, c09_rev_densify::<3, 4>());
dproof!(c09_rev_densify_m3_p5, 7, c09_rev_densify::<3, 5>());
dproof!(c09_rev_densify_m3_p6, 7, c09_rev_densify::<3, 6>());
dproof!(c09_opt_slice_full_m2, 5, c09_opt_slice_state::<2, 3, 1>());
dproof!(c09_opt_slice_full_m3, 6, c09_opt_slice_state::<3, 7, 0>());
dproof!(c09_opt_slice_part_m3, 6, c09_opt_slice_state::<3, 5, 2>());
dproof!(c09_rev_slice_full_m2, 5, c09_rev_slice_state::<2, 3, 0>());
dproof!(c09_rev_slice_full_m3, 6, c09_rev_slice_state::<3, 7, 2>());
dproof!(c09_rev_slice_part_m3, 8, c09_rev_slice_state::<3, 5, 0>());
dproof!(c09_opt_slice_m2, 5, c09_opt_slice::<2>());
dproof!(c09_opt_slice_m3, 6, c09_opt_slice::<3>());
dproof!(c09_rev_slice_m2, 5, c09_rev_slice::<2>());
dproof!(c09_rev_slice_m3, 6, c09_rev_slice::<3>());

#[kani::proof]
#[kani::stub(std::backtrace::Backtrace::capture, crate::verif_common::no_backtrace)]
#[kani::stub(<::anyhow::Error as std::ops::Drop>::drop, crate::verif_common::anyhow_drop_noop)]
#[kani::unwind(8)]
#[kani::should_panic]
fn c09_opt_empty_end_m2() {
    c09_opt_empty::<2>(false);
}
#[kani::proof]
#[kani::stub(std::backtrace::Backtrace::capture, crate::verif_common::no_backtrace)]
#[kani::stub(<::anyhow::Error as std::ops::Drop>::drop, crate::verif_common::anyhow_drop_noop)]
#[kani::unwind(8)]
fn c09_opt_empty_slice_m2() {
    c09_opt_empty::<2>(true);
}
#[kani::proof]
#[kani::stub(std::backtrace::Backtrace::capture, crate::verif_common::no_backtrace)]
#[kani::stub(<::anyhow::Error as std::ops::Drop>::drop, crate::verif_common::anyhow_drop_noop)]
#[kani::unwind(8)]
#[kani::should_panic]
fn c09_rev_empty_end_m2() {
    c09_rev_empty::<2>(false);
}
#[kani::proof]
#[kani::stub(std::backtrace::Backtrace::capture, crate::verif_common::no_backtrace)]
#[kani::stub(<::anyhow::Error as std::ops::Drop>::drop, crate::verif_common::anyhow_drop_noop)]
#[kani::unwind(8)]
fn c09_rev_empty_slice_m2() {
    c09_rev_empty::<2>(true);
}

// C12 part 1 — two instances, same stream, identical finished sketches (all three views)
fn c12_opt_two<const M: usize>() {
    let mut a: Opt64 = OptDensMinHash::new(M, BuildHasherDefault::<NoHashHasher>::default());
    let mut b: Opt64 = OptDensMinHash::new(M, BuildHasherDefault::<NoHashHasher>::default());
    let x: u64 = kani::any();
    a.sketch(&x);
    b.sketch(&x);
    // (densification of two instances in one harness runs out of memory; that the densification streams are
    //  keyed by position only is shown by c09_*_densify_*, and entropy reachability by part 2)
    for k in 0..M {
        assert!(beq(a.hsketch[k], b.hsketch[k]) && a.init[k] == b.init[k]);
        assert!(a.values[k] == b.values[k]);
    }
    assert!(a.nb_empty == b.nb_empty);
    kani::cover!(a.values[0] == nohash(x), "witness");
}
fn c12_rev_two<const M: usize>() {
    let mut a: Rev64 = RevOptDensMinHash::new(M, BuildHasherDefault::<NoHashHasher>::default());
    let mut b: Rev64 = RevOptDensMinHash::new(M, BuildHasherDefault::<NoHashHasher>::default());
    let x: u64 = kani::any();
    a.sketch(&x);
    b.sketch(&x);
    for k in 0..M {
        assert!(beq(a.hsketch[k], b.hsketch[k]) && a.init[k] == b.init[k]);
        assert!(a.values[k] == b.values[k]);
    }
    assert!(a.nb_empty == b.nb_empty);
    kani::cover!(a.values[0] == nohash(x), "witness");
}
dproof!(c12_optdens_m2, 5, c12_opt_two::<2>());
dproof!(c12_revdens_m2, 6, c12_rev_two::<2>());
