use fnv::FnvHasher;
use probminhash::probminhasher::probordminhash2::ProbOrdMinHash2;
#[test]
fn l1_signature_is_permutation_invariant() {
    let mut bad = 0;
    let mut total = 0;
    for m in [4u32, 8, 16, 32] {
        for n in 3..8u64 {
            let seq: Vec<u64> = (0..n).map(|x| x * 7 + 1).collect();
            let mut rev = seq.clone();
            rev.reverse();
            let mut rot = seq.clone();
            rot.rotate_left(1);
            let mut a: ProbOrdMinHash2<FnvHasher> = ProbOrdMinHash2::new(m, 1);
            let s0 = a.hash_set(&seq);
            for other in [&rev, &rot] {
                let mut b: ProbOrdMinHash2<FnvHasher> = ProbOrdMinHash2::new(m, 1);
                let s1 = b.hash_set(other);
                total += 1;
                if s0 != s1 {
                    bad += 1;
                    if bad == 1 {
                        println!("first difference: m={} seq={:?} other={:?}", m, seq, other);
                    }
                }
            }
        }
    }
    println!("{} of {} permuted sequences give another l=1 signature", bad, total);
    assert_eq!(bad, 0);
}
