use fnv::FnvHasher;
use probminhash::densminhash::OptDensMinHash;
use std::hash::BuildHasherDefault;
#[test]
fn f32_tie() {
    let mut found = 0;
    for trial in 0..150u64 {
        let items: Vec<u64> = (trial * 1_000_000..trial * 1_000_000 + 100_000).collect();
        let mut a: OptDensMinHash<f32, u64, FnvHasher> = OptDensMinHash::new(1, BuildHasherDefault::<FnvHasher>::default());
        a.sketch_slice(&items).unwrap();
        let rev: Vec<u64> = items.iter().rev().cloned().collect();
        let mut b: OptDensMinHash<f32, u64, FnvHasher> = OptDensMinHash::new(1, BuildHasherDefault::<FnvHasher>::default());
        b.sketch_slice(&rev).unwrap();
        if a.get_hsketch_u64() != b.get_hsketch_u64() {
            found += 1;
            println!("trial {} : f32 {:?} {:?} u64 {:?} {:?}", trial, a.get_hsketch(), b.get_hsketch(), a.get_hsketch_u64(), b.get_hsketch_u64());
        }
    }
    println!("found {}", found);
}
