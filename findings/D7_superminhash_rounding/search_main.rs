use probminhash::superminhasher::{NoHashHasher, SuperMinHash};
use std::hash::BuildHasherDefault;

fn sk(m: usize, items: &[u64]) -> Vec<f32> {
    let mut s: SuperMinHash<f32, u64, NoHashHasher> = SuperMinHash::new(m, BuildHasherDefault::<NoHashHasher>::default());
    for it in items {
        s.sketch(it).unwrap();
    }
    s.get_hsketch().clone()
}

fn main() {
    let m: usize = std::env::args().nth(1).map(|x| x.parse().unwrap()).unwrap_or(6);
    // 1. items whose own sketch has a value that rounded up to the next integer
    let mut specials = vec![];
    let mut id: u64 = 0;
    while specials.len() < 6 && id < 400_000_000 {
        let h = sk(m, &[id]);
        let mut ints = vec![0usize; m + 1];
        for v in &h {
            ints[(*v as usize).min(m)] += 1;
        }
        if ints.iter().take(m - 1).any(|c| *c == 0) && h.iter().any(|v| v.fract() == 0.0 && *v >= 2.0 && (*v as usize) < m - 1) {
            println!("special item {} sketch {:?}", id, h);
            specials.push(id);
        }
        id += 1;
    }
    // 2. order dependence
    let mut seed: u64 = 12345;
    let mut next = || {
        seed ^= seed << 13;
        seed ^= seed >> 7;
        seed ^= seed << 17;
        seed
    };
    for &a in &specials {
        for trial in 0..20_000_000u64 {
            let n = 2 + (next() % 6) as usize;
            let mut items: Vec<u64> = (0..n).map(|_| next() % 1_000_000_000).collect();
            let pos = (next() % (n as u64 + 1)) as usize;
            items.insert(pos, a);
            let s1 = sk(m, &items);
            let mut rev = items.clone();
            rev.reverse();
            let s2 = sk(m, &rev);
            if s1 != s2 {
                println!("ORDER DEPENDENCE m={} items {:?}\n  forward  {:?}\n  reversed {:?}", m, items, s1, s2);
                return;
            }
            if trial % 5_000_000 == 0 {
                eprintln!("a={} trial {}", a, trial);
            }
        }
    }
    println!("nothing found");
}
