// Copyright 2018 Developers of the Rand project.
// Copyright 2013-2017 The Rust Project Developers.
//
// Licensed under the Apache License, Version 2.0 <LICENSE-APACHE or
// https://www.apache.org/licenses/LICENSE-2.0> or the MIT license
// <LICENSE-MIT or https://opensource.org/licenses/MIT>, at your
// option. This file may not be copied, modified, or distributed
// except according to those terms.

//! [`Rng`] trait

use crate::distr::uniform::{SampleRange, SampleUniform};
use crate::distr::{self, Distribution, StandardUniform};
use core::num::Wrapping;
use core::{mem, slice};
use rand_core::RngCore;

/// User-level interface for RNGs
///
/// [`RngCore`] is the `dyn`-safe implementation-level interface for Random
/// (Number) Generators. This trait, `Rng`, provides a user-level interface on
/// RNGs. It is implemented automatically for any `R: RngCore`.
///
/// This trait must usually be brought into scope via `use rand::Rng;` or
/// `use rand::prelude::*;`.
///
/// # Generic usage
///
/// The basic pattern is `fn foo<R: Rng + ?Sized>(rng: &mut R)`. Some
/// things are worth noting here:
///
/// - Since `Rng: RngCore` and every `RngCore` implements `Rng`, it makes no
///   difference whether we use `R: Rng` or `R: RngCore`.
/// - The `+ ?Sized` un-bounding allows functions to be called directly on
///   type-erased references; i.e. `foo(r)` where `r: &mut dyn RngCore`. Without
///   this it would be necessary to write `foo(&mut r)`.
///
/// An alternative pattern is possible: `fn foo<R: Rng>(rng: R)`. This has some
/// trade-offs. It allows the argument to be consumed directly without a `&mut`
/// (which is how `from_rng(rand::rng())` works); also it still works directly
/// on references (including type-erased references). Unfortunately within the
/// function `foo` it is not known whether `rng` is a reference type or not,
/// hence many uses of `rng` require an extra reference, either explicitly
/// (`distr.sample(&mut rng)`) or implicitly (`rng.random()`); one may hope the
/// optimiser can remove redundant references later.
///
/// Example:
///
/// ```
/// use rand::Rng;
///
/// fn foo<R: Rng + ?Sized>(rng: &mut R) -> f32 {
///     rng.random()
/// }
///
/// # let v = foo(&mut rand::rng());
/// ```
pub trait Rng: RngCore {
    /// Return a random value via the [`StandardUniform`] distribution.
    ///
    /// # Example
    ///
    /// ```
    /// use rand::Rng;
    ///
    /// let mut rng = rand::rng();
    /// let x: u32 = rng.random();
    /// println!("{}", x);
    /// println!("{:?}", rng.random::<(f64, bool)>());
    /// ```
    ///
    /// # Arrays and tuples
    ///
    /// The `rng.random()` method is able to generate arrays
    /// and tuples (up to 12 elements), so long as all element types can be
    /// generated.
    ///
    /// For arrays of integers, especially for those with small element types
    /// (< 64 bit), it will likely be faster to instead use [`Rng::fill`],
    /// though note that generated values will differ.
    ///
    /// ```
    /// use rand::Rng;
    ///
    /// let mut rng = rand::rng();
    /// let tuple: (u8, i32, char) = rng.random(); // arbitrary tuple support
    ///
    /// let arr1: [f32; 32] = rng.random();        // array construction
    /// let mut arr2 = [0u8; 128];
    /// rng.fill(&mut arr2);                    // array fill
    /// ```
    ///
    /// [`StandardUniform`]: distr::StandardUniform
    #[inline]
    fn random<T>(&mut self) -> T
    where
        StandardUniform: Distribution<T>,
    {
        StandardUniform.sample(self)
    }

    /// Return an iterator over [`random`](Self::random) variates
    ///
    /// This is a just a wrapper over [`Rng::sample_iter`] using
    /// [`distr::StandardUniform`].
    ///
    /// Note: this method consumes its argument. Use
    /// `(&mut rng).random_iter()` to avoid consuming the RNG.
    ///
    /// # Example
    ///
    /// ```
    /// use rand::{rngs::SmallRng, Rng, SeedableRng};
    ///
    /// let rng = SmallRng::seed_from_u64(0);
    /// let v: Vec<i32> = rng.random_iter().take(5).collect();
    /// assert_eq!(v.len(), 5);
    /// ```
    #[inline]
    fn random_iter<T>(self) -> distr::Iter<StandardUniform, Self, T>
    where
        Self: Sized,
        StandardUniform: Distribution<T>,
    {
        StandardUniform.sample_iter(self)
    }

    /// Generate a random value in the given range.
    ///
    /// This function is optimised for the case that only a single sample is
    /// made from the given range. See also the [`Uniform`] distribution
    /// type which may be faster if sampling from the same range repeatedly.
    ///
    /// All types support `low..high_exclusive` and `low..=high` range syntax.
    /// Unsigned integer types also support `..high_exclusive` and `..=high` syntax.
    ///
    /// # Panics
    ///
    /// Panics if the range is empty, or if `high - low` overflows for floats.
    ///
    /// # Example
    ///
    /// ```
    /// use rand::Rng;
    ///
    /// let mut rng = rand::rng();
    ///
    /// // Exclusive range
    /// let n: u32 = rng.random_range(..10);
    /// println!("{}", n);
    /// let m: f64 = rng.random_range(-40.0..1.3e5);
    /// println!("{}", m);
    ///
    /// // Inclusive range
    /// let n: u32 = rng.random_range(..=10);
    /// println!("{}", n);
    /// ```
    ///
    /// [`Uniform`]: distr::uniform::Uniform
    #[track_caller]
    fn random_range<T, R>(&mut self, range: R) -> T
    where
        T: SampleUniform,
        R: SampleRange<T>,
    {
        assert!(!range.is_empty(), "cannot sample empty range");
        range.sample_single(self).unwrap()
    }

    /// Return a bool with a probability `p` of being true.
    ///
    /// See also the [`Bernoulli`] distribution, which may be faster if
    /// sampling from the same probability repeatedly.
    ///
    /// # Example
    ///
    /// ```
    /// use rand::Rng;
    ///
    /// let mut rng = rand::rng();
    /// println!("{}", rng.random_bool(1.0 / 3.0));
    /// ```
    ///
    /// # Panics
    ///
    /// If `p < 0` or `p > 1`.
    ///
    /// [`Bernoulli`]: distr::Bernoulli
    #[inline]
    #[track_caller]
    fn random_bool(&mut self, p: f64) -> bool {
        match distr::Bernoulli::new(p) {
            Ok(d) => self.sample(d),
            Err(_) => panic!("p={:?} is outside range [0.0, 1.0]", p),
        }
    }

    /// Return a bool with a probability of `numerator/denominator` of being
    /// true.
    ///
    /// That is, `random_ratio(2, 3)` has chance of 2 in 3, or about 67%, of
    /// returning true. If `numerator == denominator`, then the returned value
    /// is guaranteed to be `true`. If `numerator == 0`, then the returned
    /// value is guaranteed to be `false`.
    ///
    /// See also the [`Bernoulli`] distribution, which may be faster if
    /// sampling from the same `numerator` and `denominator` repeatedly.
    ///
    /// # Panics
    ///
    /// If `denominator == 0` or `numerator > denominator`.
    ///
    /// # Example
    ///
    /// ```
    /// use rand::Rng;
    ///
    /// let mut rng = rand::rng();
    /// println!("{}", rng.random_ratio(2, 3));
    /// ```
    ///
    /// [`Bernoulli`]: distr::Bernoulli
    #[inline]
    #[track_caller]
    fn random_ratio(&mut self, numerator: u32, denominator: u32) -> bool {
        match distr::Bernoulli::from_ratio(numerator, denominator) {
            Ok(d) => self.sample(d),
            Err(_) => panic!(
                "p={}/{} is outside range [0.0, 1.0]",
                numerator, denominator
            ),
        }
    }

    /// Sample a new value, using the given distribution.
    ///
    /// ### Example
    ///
    /// ```
    /// use rand::Rng;
    /// use rand::distr::Uniform;
    ///
    /// let mut rng = rand::rng();
    /// let x = rng.sample(Uniform::new(10u32, 15).unwrap());
    /// // Type annotation requires two types, the type and distribution; the
    /// // distribution can be inferred.
    /// let y = rng.sample::<u16, _>(Uniform::new(10, 15).unwrap());
    /// ```
    fn sample<T, D: Distribution<T>>(&mut self, distr: D) -> T {
        distr.sample(self)
    }

    /// Create an iterator that generates values using the given distribution.
    ///
    /// Note: this method consumes its arguments. Use
    /// `(&mut rng).sample_iter(..)` to avoid consuming the RNG.
    ///
    /// # Example
    ///
    /// ```
    /// use rand::Rng;
    /// use rand::distr::{Alphanumeric, Uniform, StandardUniform};
    ///
    /// let mut rng = rand::rng();
    ///
    /// // Vec of 16 x f32:
    /// let v: Vec<f32> = (&mut rng).sample_iter(StandardUniform).take(16).collect();
    ///
    /// // String:
    /// let s: String = (&mut rng).sample_iter(Alphanumeric)
    ///     .take(7)
    ///     .map(char::from)
    ///     .collect();
    ///
    /// // Combined values
    /// println!("{:?}", (&mut rng).sample_iter(StandardUniform).take(5)
    ///                              .collect::<Vec<(f64, bool)>>());
    ///
    /// // Dice-rolling:
    /// let die_range = Uniform::new_inclusive(1, 6).unwrap();
    /// let mut roll_die = (&mut rng).sample_iter(die_range);
    /// while roll_die.next().unwrap() != 6 {
    ///     println!("Not a 6; rolling again!");
    /// }
    /// ```
    fn sample_iter<T, D>(self, distr: D) -> distr::Iter<D, Self, T>
    where
        D: Distribution<T>,
        Self: Sized,
    {
        distr.sample_iter(self)
    }

    /// Fill any type implementing [`Fill`] with random data
    ///
    /// This method is implemented for types which may be safely reinterpreted
    /// as an (aligned) `[u8]` slice then filled with random data. It is often
    /// faster than using [`Rng::random`] but not value-equivalent.
    ///
    /// The distribution is expected to be uniform with portable results, but
    /// this cannot be guaranteed for third-party implementations.
    ///
    /// # Example
    ///
    /// ```
    /// use rand::Rng;
    ///
    /// let mut arr = [0i8; 20];
    /// rand::rng().fill(&mut arr[..]);
    /// ```
    ///
    /// [`fill_bytes`]: RngCore::fill_bytes
    #[track_caller]
    fn fill<T: Fill + ?Sized>(&mut self, dest: &mut T) {
        dest.fill(self)
    }

    /// Alias for [`Rng::random`].
    #[inline]
    #[deprecated(
        since = "0.9.0",
        note = "Renamed to `random` to avoid conflict with the new `gen` keyword in Rust 2024."
    )]
    fn r#gen<T>(&mut self) -> T
    where
        StandardUniform: Distribution<T>,
    {
        self.random()
    }

    /// Alias for [`Rng::random_range`].
    #[inline]
    #[deprecated(since = "0.9.0", note = "Renamed to `random_range`")]
    fn gen_range<T, R>(&mut self, range: R) -> T
    where
        T: SampleUniform,
        R: SampleRange<T>,
    {
        self.random_range(range)
    }

    /// Alias for [`Rng::random_bool`].
    #[inline]
    #[deprecated(since = "0.9.0", note = "Renamed to `random_bool`")]
    fn gen_bool(&mut self, p: f64) -> bool {
        self.random_bool(p)
    }

    /// Alias for [`Rng::random_ratio`].
    #[inline]
    #[deprecated(since = "0.9.0", note = "Renamed to `random_ratio`")]
    fn gen_ratio(&mut self, numerator: u32, denominator: u32) -> bool {
        self.random_ratio(numerator, denominator)
    }
}

impl<R: RngCore + ?Sized> Rng for R {}

/// Types which may be filled with random data
///
/// This trait allows arrays to be efficiently filled with random data.
///
/// Implementations are expected to be portable across machines unless
/// clearly documented otherwise (see the
/// [Chapter on Portability](https://rust-random.github.io/book/portability.html)).
pub trait Fill {
    /// Fill self with random data
    fn fill<R: Rng + ?Sized>(&mut self, rng: &mut R);
}

macro_rules! impl_fill_each {
    () => {};
    ($t:ty) => {
        impl Fill for [$t] {
            fn fill<R: Rng + ?Sized>(&mut self, rng: &mut R) {
                for elt in self.iter_mut() {
                    *elt = rng.random();
                }
            }
        }
    };
    ($t:ty, $($tt:ty,)*) => {
        impl_fill_each!($t);
        impl_fill_each!($($tt,)*);
    };
}

impl_fill_each!(bool, char, f32, f64,);

impl Fill for [u8] {
    fn fill<R: Rng + ?Sized>(&mut self, rng: &mut R) {
        rng.fill_bytes(self)
    }
}

/// Call target for unsafe macros
const unsafe fn __unsafe() {}

/// Implement `Fill` for given type `$t`.
///
/// # Safety
/// All bit patterns of `[u8; size_of::<$t>()]` must represent values of `$t`.
macro_rules! impl_fill {
    () => {};
    ($t:ty) => {{
        // Force caller to wrap with an `unsafe` block
        __unsafe();

        impl Fill for [$t] {
            fn fill<R: Rng + ?Sized>(&mut self, rng: &mut R) {
                if self.len() > 0 {
                    let size = mem::size_of_val(self);
                    rng.fill_bytes(
                        // SAFETY: `self` non-null and valid for reads and writes within its `size`
                        // bytes. `self` meets the alignment requirements of `&mut [u8]`.
                        // The contents of `self` are initialized. Both `[u8]` and `[$t]` are valid
                        // for all bit-patterns of their contents (note that the SAFETY requirement
                        // on callers of this macro). `self` is not borrowed.
                        unsafe {
                            slice::from_raw_parts_mut(self.as_mut_ptr()
                                as *mut u8,
                                size
                            )
                        }
                    );
                    for x in self {
                        *x = x.to_le();
                    }
                }
            }
        }

        impl Fill for [Wrapping<$t>] {
            fn fill<R: Rng + ?Sized>(&mut self, rng: &mut R) {
                if self.len() > 0 {
                    let size = self.len() * mem::size_of::<$t>();
                    rng.fill_bytes(
                        // SAFETY: `self` non-null and valid for reads and writes within its `size`
                        // bytes. `self` meets the alignment requirements of `&mut [u8]`.
                        // The contents of `self` are initialized. Both `[u8]` and `[$t]` are valid
                        // for all bit-patterns of their contents (note that the SAFETY requirement
                        // on callers of this macro). `self` is not borrowed.
                        unsafe {
                            slice::from_raw_parts_mut(self.as_mut_ptr()
                                as *mut u8,
                                size
                            )
                        }
                    );
                    for x in self {
                        *x = Wrapping(x.0.to_le());
                    }
                }
            }
        }}
    };
    ($t:ty, $($tt:ty,)*) => {{
        impl_fill!($t);
        // TODO: this could replace above impl once Rust #32463 is fixed
        // impl_fill!(Wrapping<$t>);
        impl_fill!($($tt,)*);
    }}
}

// SAFETY: All bit patterns of `[u8; size_of::<$t>()]` represent values of `u*`.
const _: () = unsafe { impl_fill!(u16, u32, u64, u128,) };
// SAFETY: All bit patterns of `[u8; size_of::<$t>()]` represent values of `i*`.
const _: () = unsafe { impl_fill!(i8, i16, i32, i64, i128,) };

impl<T, const N: usize> Fill for [T; N]
where
    [T]: Fill,
{
    fn fill<R: Rng + ?Sized>(&mut self, rng: &mut R) {
        <[T] as Fill>::fill(self, rng)
    }
}

#[cfg(test)]
mod test {
    use super::*;
    use crate::test::{const_rng, rng};
    #[cfg(feature = "alloc")]
    use alloc::boxed::Box;

    #[test]
    fn test_fill_bytes_default() {
        let mut r = const_rng(0x11_22_33_44_55_66_77_88);

        // check every remainder mod 8, both in small and big vectors.
        let lengths = [0, 1, 2, 3, 4, 5, 6, 7, 80, 81, 82, 83, 84, 85, 86, 87];
        for &n in lengths.iter() {
            let mut buffer = [0u8; 87];
            let v = &mut buffer[0..n];
            r.fill_bytes(v);

            // use this to get nicer error messages.
            for (i, &byte) in v.iter().enumerate() {
                if byte == 0 {
                    panic!("byte {} of {} is zero", i, n)
                }
            }
        }
    }

    #[test]
    fn test_fill() {
        let x = 9041086907909331047; // a random u64
        let mut rng = const_rng(x);

        // Convert to byte sequence and back to u64; byte-swap twice if BE.
        let mut array = [0u64; 2];
        rng.fill(&mut array[..]);
        assert_eq!(array, [x, x]);
        assert_eq!(rng.next_u64(), x);

        // Convert to bytes then u32 in LE order
        let mut array = [0u32; 2];
        rng.fill(&mut array[..]);
        assert_eq!(array, [x as u32, (x >> 32) as u32]);
        assert_eq!(rng.next_u32(), x as u32);

        // Check equivalence using wrapped arrays
        let mut warray = [Wrapping(0u32); 2];
        rng.fill(&mut warray[..]);
        assert_eq!(array[0], warray[0].0);
        assert_eq!(array[1], warray[1].0);

        // Check equivalence for generated floats
        let mut array = [0f32; 2];
        rng.fill(&mut array);
        let arr2: [f32; 2] = rng.random();
        assert_eq!(array, arr2);
    }

    #[test]
    fn test_fill_empty() {
        let mut array = [0u32; 0];
        let mut rng = rng(1);
        rng.fill(&mut array);
        rng.fill(&mut array[..]);
    }

    #[test]
    fn test_random_range_int() {
        let mut r = rng(101);
        for _ in 0..1000 {
            let a = r.random_range(-4711..17);
            assert!((-4711..17).contains(&a));
            let a: i8 = r.random_range(-3..42);
            assert!((-3..42).contains(&a));
            let a: u16 = r.random_range(10..99);
            assert!((10..99).contains(&a));
            let a: i32 = r.random_range(-100..2000);
            assert!((-100..2000).contains(&a));
            let a: u32 = r.random_range(12..=24);
            assert!((12..=24).contains(&a));

            assert_eq!(r.random_range(..1u32), 0u32);
            assert_eq!(r.random_range(-12i64..-11), -12i64);
            assert_eq!(r.random_range(3_000_000..3_000_001), 3_000_000);
        }
    }

    #[test]
    fn test_random_range_float() {
        let mut r = rng(101);
        for _ in 0..1000 {
            let a = r.random_range(-4.5..1.7);
            assert!((-4.5..1.7).contains(&a));
            let a = r.random_range(-1.1..=-0.3);
            assert!((-1.1..=-0.3).contains(&a));

            assert_eq!(r.random_range(0.0f32..=0.0), 0.);
            assert_eq!(r.random_range(-11.0..=-11.0), -11.);
            assert_eq!(r.random_range(3_000_000.0..=3_000_000.0), 3_000_000.);
        }
    }

    #[test]
    #[should_panic]
    #[allow(clippy::reversed_empty_ranges)]
    fn test_random_range_panic_int() {
        let mut r = rng(102);
        r.random_range(5..-2);
    }

    #[test]
    #[should_panic]
    #[allow(clippy::reversed_empty_ranges)]
    fn test_random_range_panic_usize() {
        let mut r = rng(103);
        r.random_range(5..2);
    }

    #[test]
    #[allow(clippy::bool_assert_comparison)]
    fn test_random_bool() {
        let mut r = rng(105);
        for _ in 0..5 {
            assert_eq!(r.random_bool(0.0), false);
            assert_eq!(r.random_bool(1.0), true);
        }
    }

    #[test]
    fn test_rng_mut_ref() {
        fn use_rng(mut r: impl Rng) {
            let _ = r.next_u32();
        }

        let mut rng = rng(109);
        use_rng(&mut rng);
    }

    #[test]
    fn test_rng_trait_object() {
        use crate::distr::{Distribution, StandardUniform};
        let mut rng = rng(109);
        let mut r = &mut rng as &mut dyn RngCore;
        r.next_u32();
        r.random::<i32>();
        assert_eq!(r.random_range(0..1), 0);
        let _c: u8 = StandardUniform.sample(&mut r);
    }

    #[test]
    #[cfg(feature = "alloc")]
    fn test_rng_boxed_trait() {
        use crate::distr::{Distribution, StandardUniform};
        let rng = rng(110);
        let mut r = Box::new(rng) as Box<dyn RngCore>;
        r.next_u32();
        r.random::<i32>();
        assert_eq!(r.random_range(0..1), 0);
        let _c: u8 = StandardUniform.sample(&mut r);
    }

    #[test]
    #[cfg_attr(miri, ignore)] // Miri is too slow
    fn test_gen_ratio_average() {
        const NUM: u32 = 3;
        const DENOM: u32 = 10;
        const N: u32 = 100_000;

        let mut sum: u32 = 0;
        let mut rng = rng(111);
        for _ in 0..N {
            if rng.random_ratio(NUM, DENOM) {
                sum += 1;
            }
        }
        // Have Binomial(N, NUM/DENOM) distribution
        let expected = (NUM * N) / DENOM; // exact integer
        assert!(((sum - expected) as i32).abs() < 500);
    }
}
