// Copyright 2018 Developers of the Rand project.
// Copyright 2013-2017 The Rust Project Developers.
//
// Licensed under the Apache License, Version 2.0 <LICENSE-APACHE or
// https://www.apache.org/licenses/LICENSE-2.0> or the MIT license
// <LICENSE-MIT or https://opensource.org/licenses/MIT>, at your
// option. This file may not be copied, modified, or distributed
// except according to those terms.

//! Distribution trait and associates

use crate::Rng;
#[cfg(feature = "alloc")]
use alloc::string::String;
use core::iter;

/// Types (distributions) that can be used to create a random instance of `T`.
///
/// It is possible to sample from a distribution through both the
/// `Distribution` and [`Rng`] traits, via `distr.sample(&mut rng)` and
/// `rng.sample(distr)`. They also both offer the [`sample_iter`] method, which
/// produces an iterator that samples from the distribution.
///
/// All implementations are expected to be immutable; this has the significant
/// advantage of not needing to consider thread safety, and for most
/// distributions efficient state-less sampling algorithms are available.
///
/// Implementations are typically expected to be portable with reproducible
/// results when used with a PRNG with fixed seed; see the
/// [portability chapter](https://rust-random.github.io/book/portability.html)
/// of The Rust Rand Book. In some cases this does not apply, e.g. the `usize`
/// type requires different sampling on 32-bit and 64-bit machines.
///
/// [`sample_iter`]: Distribution::sample_iter
pub trait Distribution<T> {
    /// Generate a random value of `T`, using `rng` as the source of randomness.
    fn sample<R: Rng + ?Sized>(&self, rng: &mut R) -> T;

    /// Create an iterator that generates random values of `T`, using `rng` as
    /// the source of randomness.
    ///
    /// Note that this function takes `self` by value. This works since
    /// `Distribution<T>` is impl'd for `&D` where `D: Distribution<T>`,
    /// however borrowing is not automatic hence `distr.sample_iter(...)` may
    /// need to be replaced with `(&distr).sample_iter(...)` to borrow or
    /// `(&*distr).sample_iter(...)` to reborrow an existing reference.
    ///
    /// # Example
    ///
    /// ```
    /// use rand::distr::{Distribution, Alphanumeric, Uniform, StandardUniform};
    ///
    /// let mut rng = rand::rng();
    ///
    /// // Vec of 16 x f32:
    /// let v: Vec<f32> = StandardUniform.sample_iter(&mut rng).take(16).collect();
    ///
    /// // String:
    /// let s: String = Alphanumeric
    ///     .sample_iter(&mut rng)
    ///     .take(7)
    ///     .map(char::from)
    ///     .collect();
    ///
    /// // Dice-rolling:
    /// let die_range = Uniform::new_inclusive(1, 6).unwrap();
    /// let mut roll_die = die_range.sample_iter(&mut rng);
    /// while roll_die.next().unwrap() != 6 {
    ///     println!("Not a 6; rolling again!");
    /// }
    /// ```
    fn sample_iter<R>(self, rng: R) -> Iter<Self, R, T>
    where
        R: Rng,
        Self: Sized,
    {
        Iter {
            distr: self,
            rng,
            phantom: core::marker::PhantomData,
        }
    }

    /// Map sampled values to type `S`
    ///
    /// # Example
    ///
    /// ```
    /// use rand::distr::{Distribution, Uniform};
    ///
    /// let die = Uniform::new_inclusive(1, 6).unwrap();
    /// let even_number = die.map(|num| num % 2 == 0);
    /// while !even_number.sample(&mut rand::rng()) {
    ///     println!("Still odd; rolling again!");
    /// }
    /// ```
    fn map<F, S>(self, func: F) -> Map<Self, F, T, S>
    where
        F: Fn(T) -> S,
        Self: Sized,
    {
        Map {
            distr: self,
            func,
            phantom: core::marker::PhantomData,
        }
    }
}

impl<T, D: Distribution<T> + ?Sized> Distribution<T> for &D {
    fn sample<R: Rng + ?Sized>(&self, rng: &mut R) -> T {
        (*self).sample(rng)
    }
}

/// An iterator over a [`Distribution`]
///
/// This iterator yields random values of type `T` with distribution `D`
/// from a random generator of type `R`.
///
/// Construct this `struct` using [`Distribution::sample_iter`] or
/// [`Rng::sample_iter`]. It is also used by [`Rng::random_iter`] and
/// [`crate::random_iter`].
#[derive(Debug)]
pub struct Iter<D, R, T> {
    distr: D,
    rng: R,
    phantom: core::marker::PhantomData<T>,
}

impl<D, R, T> Iterator for Iter<D, R, T>
where
    D: Distribution<T>,
    R: Rng,
{
    type Item = T;

    #[inline(always)]
    fn next(&mut self) -> Option<T> {
        // Here, self.rng may be a reference, but we must take &mut anyway.
        // Even if sample could take an R: Rng by value, we would need to do this
        // since Rng is not copyable and we cannot enforce that this is "reborrowable".
        Some(self.distr.sample(&mut self.rng))
    }

    fn size_hint(&self) -> (usize, Option<usize>) {
        (usize::MAX, None)
    }
}

impl<D, R, T> iter::FusedIterator for Iter<D, R, T>
where
    D: Distribution<T>,
    R: Rng,
{
}

/// A [`Distribution`] which maps sampled values to type `S`
///
/// This `struct` is created by the [`Distribution::map`] method.
/// See its documentation for more.
#[derive(Debug)]
pub struct Map<D, F, T, S> {
    distr: D,
    func: F,
    phantom: core::marker::PhantomData<fn(T) -> S>,
}

impl<D, F, T, S> Distribution<S> for Map<D, F, T, S>
where
    D: Distribution<T>,
    F: Fn(T) -> S,
{
    fn sample<R: Rng + ?Sized>(&self, rng: &mut R) -> S {
        (self.func)(self.distr.sample(rng))
    }
}

/// Sample or extend a [`String`]
///
/// Helper methods to extend a [`String`] or sample a new [`String`].
#[cfg(feature = "alloc")]
pub trait SampleString {
    /// Append `len` random chars to `string`
    ///
    /// Note: implementations may leave `string` with excess capacity. If this
    /// is undesirable, consider calling [`String::shrink_to_fit`] after this
    /// method.
    fn append_string<R: Rng + ?Sized>(&self, rng: &mut R, string: &mut String, len: usize);

    /// Generate a [`String`] of `len` random chars
    ///
    /// Note: implementations may leave the string with excess capacity. If this
    /// is undesirable, consider calling [`String::shrink_to_fit`] after this
    /// method.
    #[inline]
    fn sample_string<R: Rng + ?Sized>(&self, rng: &mut R, len: usize) -> String {
        let mut s = String::new();
        self.append_string(rng, &mut s, len);
        s
    }
}

#[cfg(test)]
mod tests {
    use crate::distr::{Distribution, Uniform};
    use crate::Rng;

    #[test]
    fn test_distributions_iter() {
        use crate::distr::Open01;
        let mut rng = crate::test::rng(210);
        let distr = Open01;
        let mut iter = Distribution::<f32>::sample_iter(distr, &mut rng);
        let mut sum: f32 = 0.;
        for _ in 0..100 {
            sum += iter.next().unwrap();
        }
        assert!(0. < sum && sum < 100.);
    }

    #[test]
    fn test_distributions_map() {
        let dist = Uniform::new_inclusive(0, 5).unwrap().map(|val| val + 15);

        let mut rng = crate::test::rng(212);
        let val = dist.sample(&mut rng);
        assert!((15..=20).contains(&val));
    }

    #[test]
    fn test_make_an_iter() {
        fn ten_dice_rolls_other_than_five<R: Rng>(rng: &mut R) -> impl Iterator<Item = i32> + '_ {
            Uniform::new_inclusive(1, 6)
                .unwrap()
                .sample_iter(rng)
                .filter(|x| *x != 5)
                .take(10)
        }

        let mut rng = crate::test::rng(211);
        let mut count = 0;
        for val in ten_dice_rolls_other_than_five(&mut rng) {
            assert!((1..=6).contains(&val) && val != 5);
            count += 1;
        }
        assert_eq!(count, 10);
    }

    #[test]
    #[cfg(feature = "alloc")]
    fn test_dist_string() {
        use crate::distr::{Alphabetic, Alphanumeric, SampleString, StandardUniform};
        use core::str;
        let mut rng = crate::test::rng(213);

        let s1 = Alphanumeric.sample_string(&mut rng, 20);
        assert_eq!(s1.len(), 20);
        assert_eq!(str::from_utf8(s1.as_bytes()), Ok(s1.as_str()));

        let s2 = StandardUniform.sample_string(&mut rng, 20);
        assert_eq!(s2.chars().count(), 20);
        assert_eq!(str::from_utf8(s2.as_bytes()), Ok(s2.as_str()));

        let s3 = Alphabetic.sample_string(&mut rng, 20);
        assert_eq!(s3.len(), 20);
        assert_eq!(str::from_utf8(s3.as_bytes()), Ok(s3.as_str()));
    }
}
