// Copyright 2018 Developers of the Rand project.
//
// Licensed under the Apache License, Version 2.0 <LICENSE-APACHE or
// https://www.apache.org/licenses/LICENSE-2.0> or the MIT license
// <LICENSE-MIT or https://opensource.org/licenses/MIT>, at your
// option. This file may not be copied, modified, or distributed
// except according to those terms.

use super::{Error, Weight};
use crate::distr::uniform::{SampleBorrow, SampleUniform, UniformSampler};
use crate::distr::Distribution;
use crate::Rng;

// Note that this whole module is only imported if feature="alloc" is enabled.
use alloc::vec::Vec;
use core::fmt::{self, Debug};

#[cfg(feature = "serde")]
use serde::{Deserialize, Serialize};

/// A distribution using weighted sampling of discrete items.
///
/// Sampling a `WeightedIndex` distribution returns the index of a randomly
/// selected element from the iterator used when the `WeightedIndex` was
/// created. The chance of a given element being picked is proportional to the
/// weight of the element. The weights can use any type `X` for which an
/// implementation of [`Uniform<X>`] exists. The implementation guarantees that
/// elements with zero weight are never picked, even when the weights are
/// floating point numbers.
///
/// # Performance
///
/// Time complexity of sampling from `WeightedIndex` is `O(log N)` where
/// `N` is the number of weights.
/// See also [`rand_distr::weighted`] for alternative implementations supporting
/// potentially-faster sampling or a more easily modifiable tree structure.
///
/// A `WeightedIndex<X>` contains a `Vec<X>` and a [`Uniform<X>`] and so its
/// size is the sum of the size of those objects, possibly plus some alignment.
///
/// Creating a `WeightedIndex<X>` will allocate enough space to hold `N - 1`
/// weights of type `X`, where `N` is the number of weights. However, since
/// `Vec` doesn't guarantee a particular growth strategy, additional memory
/// might be allocated but not used. Since the `WeightedIndex` object also
/// contains an instance of `X::Sampler`, this might cause additional allocations,
/// though for primitive types, [`Uniform<X>`] doesn't allocate any memory.
///
/// Sampling from `WeightedIndex` will result in a single call to
/// `Uniform<X>::sample` (method of the [`Distribution`] trait), which typically
/// will request a single value from the underlying [`RngCore`], though the
/// exact number depends on the implementation of `Uniform<X>::sample`.
///
/// # Example
///
/// ```
/// use rand::prelude::*;
/// use rand::distr::weighted::WeightedIndex;
///
/// let choices = ['a', 'b', 'c'];
/// let weights = [2,   1,   1];
/// let dist = WeightedIndex::new(&weights).unwrap();
/// let mut rng = rand::rng();
/// for _ in 0..100 {
///     // 50% chance to print 'a', 25% chance to print 'b', 25% chance to print 'c'
///     println!("{}", choices[dist.sample(&mut rng)]);
/// }
///
/// let items = [('a', 0.0), ('b', 3.0), ('c', 7.0)];
/// let dist2 = WeightedIndex::new(items.iter().map(|item| item.1)).unwrap();
/// for _ in 0..100 {
///     // 0% chance to print 'a', 30% chance to print 'b', 70% chance to print 'c'
///     println!("{}", items[dist2.sample(&mut rng)].0);
/// }
/// ```
///
/// [`Uniform<X>`]: crate::distr::Uniform
/// [`RngCore`]: crate::RngCore
/// [`rand_distr::weighted`]: https://docs.rs/rand_distr/latest/rand_distr/weighted/index.html
#[derive(Debug, Clone, PartialEq)]
#[cfg_attr(feature = "serde", derive(Serialize, Deserialize))]
pub struct WeightedIndex<X: SampleUniform + PartialOrd> {
    cumulative_weights: Vec<X>,
    total_weight: X,
    weight_distribution: X::Sampler,
}

impl<X: SampleUniform + PartialOrd> WeightedIndex<X> {
    /// Creates a new a `WeightedIndex` [`Distribution`] using the values
    /// in `weights`. The weights can use any type `X` for which an
    /// implementation of [`Uniform<X>`] exists.
    ///
    /// Error cases:
    /// -   [`Error::InvalidInput`] when the iterator `weights` is empty.
    /// -   [`Error::InvalidWeight`] when a weight is not-a-number or negative.
    /// -   [`Error::InsufficientNonZero`] when the sum of all weights is zero.
    /// -   [`Error::Overflow`] when the sum of all weights overflows.
    ///
    /// [`Uniform<X>`]: crate::distr::uniform::Uniform
    pub fn new<I>(weights: I) -> Result<WeightedIndex<X>, Error>
    where
        I: IntoIterator,
        I::Item: SampleBorrow<X>,
        X: Weight,
    {
        let mut iter = weights.into_iter();
        let mut total_weight: X = iter.next().ok_or(Error::InvalidInput)?.borrow().clone();

        let zero = X::ZERO;
        if !(total_weight >= zero) {
            return Err(Error::InvalidWeight);
        }

        let mut weights = Vec::<X>::with_capacity(iter.size_hint().0);
        for w in iter {
            // Note that `!(w >= x)` is not equivalent to `w < x` for partially
            // ordered types due to NaNs which are equal to nothing.
            if !(w.borrow() >= &zero) {
                return Err(Error::InvalidWeight);
            }
            weights.push(total_weight.clone());

            if let Err(()) = total_weight.checked_add_assign(w.borrow()) {
                return Err(Error::Overflow);
            }
        }

        if total_weight == zero {
            return Err(Error::InsufficientNonZero);
        }
        let distr = X::Sampler::new(zero, total_weight.clone()).unwrap();

        Ok(WeightedIndex {
            cumulative_weights: weights,
            total_weight,
            weight_distribution: distr,
        })
    }

    /// Update a subset of weights, without changing the number of weights.
    ///
    /// `new_weights` must be sorted by the index.
    ///
    /// Using this method instead of `new` might be more efficient if only a small number of
    /// weights is modified. No allocations are performed, unless the weight type `X` uses
    /// allocation internally.
    ///
    /// In case of error, `self` is not modified. Error cases:
    /// -   [`Error::InvalidInput`] when `new_weights` are not ordered by
    ///     index or an index is too large.
    /// -   [`Error::InvalidWeight`] when a weight is not-a-number or negative.
    /// -   [`Error::InsufficientNonZero`] when the sum of all weights is zero.
    ///     Note that due to floating-point loss of precision, this case is not
    ///     always correctly detected; usage of a fixed-point weight type may be
    ///     preferred.
    ///
    /// Updates take `O(N)` time. If you need to frequently update weights, consider
    /// [`rand_distr::weighted_tree`](https://docs.rs/rand_distr/*/rand_distr/weighted_tree/index.html)
    /// as an alternative where an update is `O(log N)`.
    pub fn update_weights(&mut self, new_weights: &[(usize, &X)]) -> Result<(), Error>
    where
        X: for<'a> core::ops::AddAssign<&'a X>
            + for<'a> core::ops::SubAssign<&'a X>
            + Clone
            + Default,
    {
        if new_weights.is_empty() {
            return Ok(());
        }

        let zero = <X as Default>::default();

        let mut total_weight = self.total_weight.clone();

        // Check for errors first, so we don't modify `self` in case something
        // goes wrong.
        let mut prev_i = None;
        for &(i, w) in new_weights {
            if let Some(old_i) = prev_i {
                if old_i >= i {
                    return Err(Error::InvalidInput);
                }
            }
            if !(*w >= zero) {
                return Err(Error::InvalidWeight);
            }
            if i > self.cumulative_weights.len() {
                return Err(Error::InvalidInput);
            }

            let mut old_w = if i < self.cumulative_weights.len() {
                self.cumulative_weights[i].clone()
            } else {
                self.total_weight.clone()
            };
            if i > 0 {
                old_w -= &self.cumulative_weights[i - 1];
            }

            total_weight -= &old_w;
            total_weight += w;
            prev_i = Some(i);
        }
        if total_weight <= zero {
            return Err(Error::InsufficientNonZero);
        }

        // Update the weights. Because we checked all the preconditions in the
        // previous loop, this should never panic.
        let mut iter = new_weights.iter();

        let mut prev_weight = zero.clone();
        let mut next_new_weight = iter.next();
        let &(first_new_index, _) = next_new_weight.unwrap();
        let mut cumulative_weight = if first_new_index > 0 {
            self.cumulative_weights[first_new_index - 1].clone()
        } else {
            zero.clone()
        };
        for i in first_new_index..self.cumulative_weights.len() {
            match next_new_weight {
                Some(&(j, w)) if i == j => {
                    cumulative_weight += w;
                    next_new_weight = iter.next();
                }
                _ => {
                    let mut tmp = self.cumulative_weights[i].clone();
                    tmp -= &prev_weight; // We know this is positive.
                    cumulative_weight += &tmp;
                }
            }
            prev_weight = cumulative_weight.clone();
            core::mem::swap(&mut prev_weight, &mut self.cumulative_weights[i]);
        }

        self.total_weight = total_weight;
        self.weight_distribution = X::Sampler::new(zero, self.total_weight.clone()).unwrap();

        Ok(())
    }
}

/// A lazy-loading iterator over the weights of a `WeightedIndex` distribution.
/// This is returned by [`WeightedIndex::weights`].
pub struct WeightedIndexIter<'a, X: SampleUniform + PartialOrd> {
    weighted_index: &'a WeightedIndex<X>,
    index: usize,
}

impl<X> Debug for WeightedIndexIter<'_, X>
where
    X: SampleUniform + PartialOrd + Debug,
    X::Sampler: Debug,
{
    fn fmt(&self, f: &mut fmt::Formatter<'_>) -> fmt::Result {
        f.debug_struct("WeightedIndexIter")
            .field("weighted_index", &self.weighted_index)
            .field("index", &self.index)
            .finish()
    }
}

impl<X> Clone for WeightedIndexIter<'_, X>
where
    X: SampleUniform + PartialOrd,
{
    fn clone(&self) -> Self {
        WeightedIndexIter {
            weighted_index: self.weighted_index,
            index: self.index,
        }
    }
}

impl<X> Iterator for WeightedIndexIter<'_, X>
where
    X: for<'b> core::ops::SubAssign<&'b X> + SampleUniform + PartialOrd + Clone,
{
    type Item = X;

    fn next(&mut self) -> Option<Self::Item> {
        match self.weighted_index.weight(self.index) {
            None => None,
            Some(weight) => {
                self.index += 1;
                Some(weight)
            }
        }
    }
}

impl<X: SampleUniform + PartialOrd + Clone> WeightedIndex<X> {
    /// Returns the weight at the given index, if it exists.
    ///
    /// If the index is out of bounds, this will return `None`.
    ///
    /// # Example
    ///
    /// ```
    /// use rand::distr::weighted::WeightedIndex;
    ///
    /// let weights = [0, 1, 2];
    /// let dist = WeightedIndex::new(&weights).unwrap();
    /// assert_eq!(dist.weight(0), Some(0));
    /// assert_eq!(dist.weight(1), Some(1));
    /// assert_eq!(dist.weight(2), Some(2));
    /// assert_eq!(dist.weight(3), None);
    /// ```
    pub fn weight(&self, index: usize) -> Option<X>
    where
        X: for<'a> core::ops::SubAssign<&'a X>,
    {
        use core::cmp::Ordering::*;

        let mut weight = match index.cmp(&self.cumulative_weights.len()) {
            Less => self.cumulative_weights[index].clone(),
            Equal => self.total_weight.clone(),
            Greater => return None,
        };

        if index > 0 {
            weight -= &self.cumulative_weights[index - 1];
        }
        Some(weight)
    }

    /// Returns a lazy-loading iterator containing the current weights of this distribution.
    ///
    /// If this distribution has not been updated since its creation, this will return the
    /// same weights as were passed to `new`.
    ///
    /// # Example
    ///
    /// ```
    /// use rand::distr::weighted::WeightedIndex;
    ///
    /// let weights = [1, 2, 3];
    /// let mut dist = WeightedIndex::new(&weights).unwrap();
    /// assert_eq!(dist.weights().collect::<Vec<_>>(), vec![1, 2, 3]);
    /// dist.update_weights(&[(0, &2)]).unwrap();
    /// assert_eq!(dist.weights().collect::<Vec<_>>(), vec![2, 2, 3]);
    /// ```
    pub fn weights(&self) -> WeightedIndexIter<'_, X>
    where
        X: for<'a> core::ops::SubAssign<&'a X>,
    {
        WeightedIndexIter {
            weighted_index: self,
            index: 0,
        }
    }

    /// Returns the sum of all weights in this distribution.
    pub fn total_weight(&self) -> X {
        self.total_weight.clone()
    }
}

impl<X> Distribution<usize> for WeightedIndex<X>
where
    X: SampleUniform + PartialOrd,
{
    fn sample<R: Rng + ?Sized>(&self, rng: &mut R) -> usize {
        let chosen_weight = self.weight_distribution.sample(rng);
        // Find the first item which has a weight *higher* than the chosen weight.
        self.cumulative_weights
            .partition_point(|w| w <= &chosen_weight)
    }
}

#[cfg(test)]
mod test {
    use super::*;

    #[cfg(feature = "serde")]
    #[test]
    fn test_weightedindex_serde() {
        let weighted_index = WeightedIndex::new([1, 2, 3, 4, 5, 6, 7, 8, 9, 10]).unwrap();

        let ser_weighted_index = bincode::serialize(&weighted_index).unwrap();
        let de_weighted_index: WeightedIndex<i32> =
            bincode::deserialize(&ser_weighted_index).unwrap();

        assert_eq!(
            de_weighted_index.cumulative_weights,
            weighted_index.cumulative_weights
        );
        assert_eq!(de_weighted_index.total_weight, weighted_index.total_weight);
    }

    #[test]
    fn test_accepting_nan() {
        assert_eq!(
            WeightedIndex::new([f32::NAN, 0.5]).unwrap_err(),
            Error::InvalidWeight,
        );
        assert_eq!(
            WeightedIndex::new([f32::NAN]).unwrap_err(),
            Error::InvalidWeight,
        );
        assert_eq!(
            WeightedIndex::new([0.5, f32::NAN]).unwrap_err(),
            Error::InvalidWeight,
        );

        assert_eq!(
            WeightedIndex::new([0.5, 7.0])
                .unwrap()
                .update_weights(&[(0, &f32::NAN)])
                .unwrap_err(),
            Error::InvalidWeight,
        )
    }

    #[test]
    #[cfg_attr(miri, ignore)] // Miri is too slow
    fn test_weightedindex() {
        let mut r = crate::test::rng(700);
        const N_REPS: u32 = 5000;
        let weights = [1u32, 2, 3, 0, 5, 6, 7, 1, 2, 3, 4, 5, 6, 7];
        let total_weight = weights.iter().sum::<u32>() as f32;

        let verify = |result: [i32; 14]| {
            for (i, count) in result.iter().enumerate() {
                let exp = (weights[i] * N_REPS) as f32 / total_weight;
                let mut err = (*count as f32 - exp).abs();
                if err != 0.0 {
                    err /= exp;
                }
                assert!(err <= 0.25);
            }
        };

        // WeightedIndex from vec
        let mut chosen = [0i32; 14];
        let distr = WeightedIndex::new(weights.to_vec()).unwrap();
        for _ in 0..N_REPS {
            chosen[distr.sample(&mut r)] += 1;
        }
        verify(chosen);

        // WeightedIndex from slice
        chosen = [0i32; 14];
        let distr = WeightedIndex::new(&weights[..]).unwrap();
        for _ in 0..N_REPS {
            chosen[distr.sample(&mut r)] += 1;
        }
        verify(chosen);

        // WeightedIndex from iterator
        chosen = [0i32; 14];
        let distr = WeightedIndex::new(weights.iter()).unwrap();
        for _ in 0..N_REPS {
            chosen[distr.sample(&mut r)] += 1;
        }
        verify(chosen);

        for _ in 0..5 {
            assert_eq!(WeightedIndex::new([0, 1]).unwrap().sample(&mut r), 1);
            assert_eq!(WeightedIndex::new([1, 0]).unwrap().sample(&mut r), 0);
            assert_eq!(
                WeightedIndex::new([0, 0, 0, 0, 10, 0])
                    .unwrap()
                    .sample(&mut r),
                4
            );
        }

        assert_eq!(
            WeightedIndex::new(&[10][0..0]).unwrap_err(),
            Error::InvalidInput
        );
        assert_eq!(
            WeightedIndex::new([0]).unwrap_err(),
            Error::InsufficientNonZero
        );
        assert_eq!(
            WeightedIndex::new([10, 20, -1, 30]).unwrap_err(),
            Error::InvalidWeight
        );
        assert_eq!(
            WeightedIndex::new([-10, 20, 1, 30]).unwrap_err(),
            Error::InvalidWeight
        );
        assert_eq!(WeightedIndex::new([-10]).unwrap_err(), Error::InvalidWeight);
    }

    #[test]
    fn test_update_weights() {
        let data = [
            (
                &[10u32, 2, 3, 4][..],
                &[(1, &100), (2, &4)][..], // positive change
                &[10, 100, 4, 4][..],
            ),
            (
                &[1u32, 2, 3, 0, 5, 6, 7, 1, 2, 3, 4, 5, 6, 7][..],
                &[(2, &1), (5, &1), (13, &100)][..], // negative change and last element
                &[1u32, 2, 1, 0, 5, 1, 7, 1, 2, 3, 4, 5, 6, 100][..],
            ),
        ];

        for (weights, update, expected_weights) in data.iter() {
            let total_weight = weights.iter().sum::<u32>();
            let mut distr = WeightedIndex::new(weights.to_vec()).unwrap();
            assert_eq!(distr.total_weight, total_weight);

            distr.update_weights(update).unwrap();
            let expected_total_weight = expected_weights.iter().sum::<u32>();
            let expected_distr = WeightedIndex::new(expected_weights.to_vec()).unwrap();
            assert_eq!(distr.total_weight, expected_total_weight);
            assert_eq!(distr.total_weight, expected_distr.total_weight);
            assert_eq!(distr.cumulative_weights, expected_distr.cumulative_weights);
        }
    }

    #[test]
    fn test_update_weights_errors() {
        let data = [
            (
                &[1i32, 0, 0][..],
                &[(0, &0)][..],
                Error::InsufficientNonZero,
            ),
            (
                &[10, 10, 10, 10][..],
                &[(1, &-11)][..],
                Error::InvalidWeight, // A weight is negative
            ),
            (
                &[1, 2, 3, 4, 5][..],
                &[(1, &5), (0, &5)][..], // Wrong order
                Error::InvalidInput,
            ),
            (
                &[1][..],
                &[(1, &1)][..], // Index too large
                Error::InvalidInput,
            ),
        ];

        for (weights, update, err) in data.iter() {
            let total_weight = weights.iter().sum::<i32>();
            let mut distr = WeightedIndex::new(weights.to_vec()).unwrap();
            assert_eq!(distr.total_weight, total_weight);
            match distr.update_weights(update) {
                Ok(_) => panic!("Expected update_weights to fail, but it succeeded"),
                Err(e) => assert_eq!(e, *err),
            }
        }
    }

    #[test]
    fn test_weight_at() {
        let data = [
            &[1][..],
            &[10, 2, 3, 4][..],
            &[1, 2, 3, 0, 5, 6, 7, 1, 2, 3, 4, 5, 6, 7][..],
            &[u32::MAX][..],
        ];

        for weights in data.iter() {
            let distr = WeightedIndex::new(weights.to_vec()).unwrap();
            for (i, weight) in weights.iter().enumerate() {
                assert_eq!(distr.weight(i), Some(*weight));
            }
            assert_eq!(distr.weight(weights.len()), None);
        }
    }

    #[test]
    fn test_weights() {
        let data = [
            &[1][..],
            &[10, 2, 3, 4][..],
            &[1, 2, 3, 0, 5, 6, 7, 1, 2, 3, 4, 5, 6, 7][..],
            &[u32::MAX][..],
        ];

        for weights in data.iter() {
            let distr = WeightedIndex::new(weights.to_vec()).unwrap();
            assert_eq!(distr.weights().collect::<Vec<_>>(), weights.to_vec());
        }
    }

    #[test]
    fn value_stability() {
        fn test_samples<X: Weight + SampleUniform + PartialOrd, I>(
            weights: I,
            buf: &mut [usize],
            expected: &[usize],
        ) where
            I: IntoIterator,
            I::Item: SampleBorrow<X>,
        {
            assert_eq!(buf.len(), expected.len());
            let distr = WeightedIndex::new(weights).unwrap();
            let mut rng = crate::test::rng(701);
            for r in buf.iter_mut() {
                *r = rng.sample(&distr);
            }
            assert_eq!(buf, expected);
        }

        let mut buf = [0; 10];
        test_samples(
            [1i32, 1, 1, 1, 1, 1, 1, 1, 1],
            &mut buf,
            &[0, 6, 2, 6, 3, 4, 7, 8, 2, 5],
        );
        test_samples(
            [0.7f32, 0.1, 0.1, 0.1],
            &mut buf,
            &[0, 0, 0, 1, 0, 0, 2, 3, 0, 0],
        );
        test_samples(
            [1.0f64, 0.999, 0.998, 0.997],
            &mut buf,
            &[2, 2, 1, 3, 2, 1, 3, 3, 2, 1],
        );
    }

    #[test]
    fn weighted_index_distributions_can_be_compared() {
        assert_eq!(WeightedIndex::new([1, 2]), WeightedIndex::new([1, 2]));
    }

    #[test]
    fn overflow() {
        assert_eq!(WeightedIndex::new([2, usize::MAX]), Err(Error::Overflow));
    }
}
