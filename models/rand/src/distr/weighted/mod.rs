// Copyright 2018 Developers of the Rand project.
//
// Licensed under the Apache License, Version 2.0 <LICENSE-APACHE or
// https://www.apache.org/licenses/LICENSE-2.0> or the MIT license
// <LICENSE-MIT or https://opensource.org/licenses/MIT>, at your
// option. This file may not be copied, modified, or distributed
// except according to those terms.

//! Weighted (index) sampling
//!
//! Primarily, this module houses the [`WeightedIndex`] distribution.
//! See also [`rand_distr::weighted`] for alternative implementations supporting
//! potentially-faster sampling or a more easily modifiable tree structure.
//!
//! [`rand_distr::weighted`]: https://docs.rs/rand_distr/latest/rand_distr/weighted/index.html

use core::fmt;
mod weighted_index;

pub use weighted_index::WeightedIndex;

/// Bounds on a weight
///
/// See usage in [`WeightedIndex`].
pub trait Weight: Clone {
    /// Representation of 0
    const ZERO: Self;

    /// Checked addition
    ///
    /// -   `Result::Ok`: On success, `v` is added to `self`
    /// -   `Result::Err`: Returns an error when `Self` cannot represent the
    ///     result of `self + v` (i.e. overflow). The value of `self` should be
    ///     discarded.
    #[allow(clippy::result_unit_err)]
    fn checked_add_assign(&mut self, v: &Self) -> Result<(), ()>;
}

macro_rules! impl_weight_int {
    ($t:ty) => {
        impl Weight for $t {
            const ZERO: Self = 0;
            fn checked_add_assign(&mut self, v: &Self) -> Result<(), ()> {
                match self.checked_add(*v) {
                    Some(sum) => {
                        *self = sum;
                        Ok(())
                    }
                    None => Err(()),
                }
            }
        }
    };
    ($t:ty, $($tt:ty),*) => {
        impl_weight_int!($t);
        impl_weight_int!($($tt),*);
    }
}
impl_weight_int!(i8, i16, i32, i64, i128, isize);
impl_weight_int!(u8, u16, u32, u64, u128, usize);

macro_rules! impl_weight_float {
    ($t:ty) => {
        impl Weight for $t {
            const ZERO: Self = 0.0;

            fn checked_add_assign(&mut self, v: &Self) -> Result<(), ()> {
                // Floats have an explicit representation for overflow
                *self += *v;
                Ok(())
            }
        }
    };
}
impl_weight_float!(f32);
impl_weight_float!(f64);

/// Invalid weight errors
///
/// This type represents errors from [`WeightedIndex::new`],
/// [`WeightedIndex::update_weights`] and other weighted distributions.
#[derive(Debug, Clone, Copy, PartialEq, Eq)]
// Marked non_exhaustive to allow a new error code in the solution to #1476.
#[non_exhaustive]
pub enum Error {
    /// The input weight sequence is empty, too long, or wrongly ordered
    InvalidInput,

    /// A weight is negative, too large for the distribution, or not a valid number
    InvalidWeight,

    /// Not enough non-zero weights are available to sample values
    ///
    /// When attempting to sample a single value this implies that all weights
    /// are zero. When attempting to sample `amount` values this implies that
    /// less than `amount` weights are greater than zero.
    InsufficientNonZero,

    /// Overflow when calculating the sum of weights
    Overflow,
}

#[cfg(feature = "std")]
impl std::error::Error for Error {}

impl fmt::Display for Error {
    fn fmt(&self, f: &mut fmt::Formatter) -> fmt::Result {
        f.write_str(match *self {
            Error::InvalidInput => "Weights sequence is empty/too long/unordered",
            Error::InvalidWeight => "A weight is negative, too large or not a valid number",
            Error::InsufficientNonZero => "Not enough weights > zero",
            Error::Overflow => "Overflow when summing weights",
        })
    }
}
