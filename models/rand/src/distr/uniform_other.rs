// Copyright 2018-2020 Developers of the Rand project.
// Copyright 2017 The Rust Project Developers.
//
// Licensed under the Apache License, Version 2.0 <LICENSE-APACHE or
// https://www.apache.org/licenses/LICENSE-2.0> or the MIT license
// <LICENSE-MIT or https://opensource.org/licenses/MIT>, at your
// option. This file may not be copied, modified, or distributed
// except according to those terms.

//! `UniformChar`, `UniformDuration` implementations

use super::{Error, SampleBorrow, SampleUniform, Uniform, UniformInt, UniformSampler};
use crate::distr::Distribution;
use crate::Rng;
use core::time::Duration;

#[cfg(feature = "serde")]
use serde::{Deserialize, Serialize};

impl SampleUniform for char {
    type Sampler = UniformChar;
}

/// The back-end implementing [`UniformSampler`] for `char`.
///
/// Unless you are implementing [`UniformSampler`] for your own type, this type
/// should not be used directly, use [`Uniform`] instead.
///
/// This differs from integer range sampling since the range `0xD800..=0xDFFF`
/// are used for surrogate pairs in UCS and UTF-16, and consequently are not
/// valid Unicode code points. We must therefore avoid sampling values in this
/// range.
#[derive(Clone, Copy, Debug, PartialEq, Eq)]
#[cfg_attr(feature = "serde", derive(Serialize, Deserialize))]
pub struct UniformChar {
    #[cfg_attr(feature = "serde", serde(deserialize_with = "deser_sampler"))]
    sampler: UniformInt<u32>,
}

#[cfg(feature = "serde")]
fn deser_sampler<'de, D>(d: D) -> Result<UniformInt<u32>, D::Error>
where
    D: serde::Deserializer<'de>,
{
    let sampler = <UniformInt<u32> as serde::Deserialize>::deserialize(d)?;
    if sampler.max() > char::MAX as u32 - CHAR_SURROGATE_LEN {
        return Err(serde::de::Error::custom(
            "bad sampler range for UniformChar",
        ));
    }
    Ok(sampler)
}

/// UTF-16 surrogate range start
const CHAR_SURROGATE_START: u32 = 0xD800;
/// UTF-16 surrogate range size
const CHAR_SURROGATE_LEN: u32 = 0xE000 - CHAR_SURROGATE_START;

/// Convert `char` to compressed `u32`
fn char_to_comp_u32(c: char) -> u32 {
    match c as u32 {
        c if c >= CHAR_SURROGATE_START => c - CHAR_SURROGATE_LEN,
        c => c,
    }
}

impl UniformSampler for UniformChar {
    type X = char;

    #[inline] // if the range is constant, this helps LLVM to do the
              // calculations at compile-time.
    fn new<B1, B2>(low_b: B1, high_b: B2) -> Result<Self, Error>
    where
        B1: SampleBorrow<Self::X> + Sized,
        B2: SampleBorrow<Self::X> + Sized,
    {
        let low = char_to_comp_u32(*low_b.borrow());
        let high = char_to_comp_u32(*high_b.borrow());
        let sampler = UniformInt::<u32>::new(low, high);
        sampler.map(|sampler| UniformChar { sampler })
    }

    #[inline] // if the range is constant, this helps LLVM to do the
              // calculations at compile-time.
    fn new_inclusive<B1, B2>(low_b: B1, high_b: B2) -> Result<Self, Error>
    where
        B1: SampleBorrow<Self::X> + Sized,
        B2: SampleBorrow<Self::X> + Sized,
    {
        let low = char_to_comp_u32(*low_b.borrow());
        let high = char_to_comp_u32(*high_b.borrow());
        let sampler = UniformInt::<u32>::new_inclusive(low, high);
        sampler.map(|sampler| UniformChar { sampler })
    }

    fn sample<R: Rng + ?Sized>(&self, rng: &mut R) -> Self::X {
        let mut x = self.sampler.sample(rng);
        if x >= CHAR_SURROGATE_START {
            x += CHAR_SURROGATE_LEN;
        }
        // SAFETY: x must not be in surrogate range or greater than char::MAX.
        // This relies on range constructors which accept char arguments.
        // Validity of input char values is assumed.
        unsafe { core::char::from_u32_unchecked(x) }
    }
}

#[cfg(feature = "alloc")]
impl crate::distr::SampleString for Uniform<char> {
    fn append_string<R: Rng + ?Sized>(
        &self,
        rng: &mut R,
        string: &mut alloc::string::String,
        len: usize,
    ) {
        // Getting the hi value to assume the required length to reserve in string.
        let mut hi = self.0.sampler.low + self.0.sampler.range - 1;
        if hi >= CHAR_SURROGATE_START {
            hi += CHAR_SURROGATE_LEN;
        }
        // Get the utf8 length of hi to minimize extra space.
        let max_char_len = char::from_u32(hi).map(char::len_utf8).unwrap_or(4);
        string.reserve(max_char_len * len);
        string.extend(self.sample_iter(rng).take(len))
    }
}

/// The back-end implementing [`UniformSampler`] for `Duration`.
///
/// Unless you are implementing [`UniformSampler`] for your own types, this type
/// should not be used directly, use [`Uniform`] instead.
#[derive(Clone, Copy, Debug, PartialEq, Eq)]
#[cfg_attr(feature = "serde", derive(Serialize, Deserialize))]
pub struct UniformDuration {
    mode: UniformDurationMode,
    offset: u32,
}

#[derive(Debug, Copy, Clone, PartialEq, Eq)]
#[cfg_attr(feature = "serde", derive(Serialize, Deserialize))]
enum UniformDurationMode {
    Small {
        secs: u64,
        nanos: Uniform<u32>,
    },
    Medium {
        nanos: Uniform<u64>,
    },
    Large {
        max_secs: u64,
        max_nanos: u32,
        secs: Uniform<u64>,
    },
}

impl SampleUniform for Duration {
    type Sampler = UniformDuration;
}

impl UniformSampler for UniformDuration {
    type X = Duration;

    #[inline]
    fn new<B1, B2>(low_b: B1, high_b: B2) -> Result<Self, Error>
    where
        B1: SampleBorrow<Self::X> + Sized,
        B2: SampleBorrow<Self::X> + Sized,
    {
        let low = *low_b.borrow();
        let high = *high_b.borrow();
        if !(low < high) {
            return Err(Error::EmptyRange);
        }
        UniformDuration::new_inclusive(low, high - Duration::new(0, 1))
    }

    #[inline]
    fn new_inclusive<B1, B2>(low_b: B1, high_b: B2) -> Result<Self, Error>
    where
        B1: SampleBorrow<Self::X> + Sized,
        B2: SampleBorrow<Self::X> + Sized,
    {
        let low = *low_b.borrow();
        let high = *high_b.borrow();
        if !(low <= high) {
            return Err(Error::EmptyRange);
        }

        let low_s = low.as_secs();
        let low_n = low.subsec_nanos();
        let mut high_s = high.as_secs();
        let mut high_n = high.subsec_nanos();

        if high_n < low_n {
            high_s -= 1;
            high_n += 1_000_000_000;
        }

        let mode = if low_s == high_s {
            UniformDurationMode::Small {
                secs: low_s,
                nanos: Uniform::new_inclusive(low_n, high_n)?,
            }
        } else {
            let max = high_s
                .checked_mul(1_000_000_000)
                .and_then(|n| n.checked_add(u64::from(high_n)));

            if let Some(higher_bound) = max {
                let lower_bound = low_s * 1_000_000_000 + u64::from(low_n);
                UniformDurationMode::Medium {
                    nanos: Uniform::new_inclusive(lower_bound, higher_bound)?,
                }
            } else {
                // An offset is applied to simplify generation of nanoseconds
                let max_nanos = high_n - low_n;
                UniformDurationMode::Large {
                    max_secs: high_s,
                    max_nanos,
                    secs: Uniform::new_inclusive(low_s, high_s)?,
                }
            }
        };
        Ok(UniformDuration {
            mode,
            offset: low_n,
        })
    }

    #[inline]
    fn sample<R: Rng + ?Sized>(&self, rng: &mut R) -> Duration {
        match self.mode {
            UniformDurationMode::Small { secs, nanos } => {
                let n = nanos.sample(rng);
                Duration::new(secs, n)
            }
            UniformDurationMode::Medium { nanos } => {
                let nanos = nanos.sample(rng);
                Duration::new(nanos / 1_000_000_000, (nanos % 1_000_000_000) as u32)
            }
            UniformDurationMode::Large {
                max_secs,
                max_nanos,
                secs,
            } => {
                // constant folding means this is at least as fast as `Rng::sample(Range)`
                let nano_range = Uniform::new(0, 1_000_000_000).unwrap();
                loop {
                    let s = secs.sample(rng);
                    let n = nano_range.sample(rng);
                    if !(s == max_secs && n > max_nanos) {
                        let sum = n + self.offset;
                        break Duration::new(s, sum);
                    }
                }
            }
        }
    }
}

#[cfg(test)]
mod tests {
    use super::*;

    #[test]
    #[cfg(feature = "serde")]
    fn test_serialization_uniform_duration() {
        let distr = UniformDuration::new(Duration::from_secs(10), Duration::from_secs(60)).unwrap();
        let de_distr: UniformDuration =
            bincode::deserialize(&bincode::serialize(&distr).unwrap()).unwrap();
        assert_eq!(distr, de_distr);
    }

    #[test]
    #[cfg_attr(miri, ignore)] // Miri is too slow
    fn test_char() {
        let mut rng = crate::test::rng(891);
        let mut max = core::char::from_u32(0).unwrap();
        for _ in 0..100 {
            let c = rng.random_range('A'..='Z');
            assert!(c.is_ascii_uppercase());
            max = max.max(c);
        }
        assert_eq!(max, 'Z');
        let d = Uniform::new(
            core::char::from_u32(0xD7F0).unwrap(),
            core::char::from_u32(0xE010).unwrap(),
        )
        .unwrap();
        for _ in 0..100 {
            let c = d.sample(&mut rng);
            assert!((c as u32) < 0xD800 || (c as u32) > 0xDFFF);
        }
        #[cfg(feature = "alloc")]
        {
            use crate::distr::SampleString;
            let string1 = d.sample_string(&mut rng, 100);
            assert_eq!(string1.capacity(), 300);
            let string2 = Uniform::new(
                core::char::from_u32(0x0000).unwrap(),
                core::char::from_u32(0x0080).unwrap(),
            )
            .unwrap()
            .sample_string(&mut rng, 100);
            assert_eq!(string2.capacity(), 100);
            let string3 = Uniform::new_inclusive(
                core::char::from_u32(0x0000).unwrap(),
                core::char::from_u32(0x0080).unwrap(),
            )
            .unwrap()
            .sample_string(&mut rng, 100);
            assert_eq!(string3.capacity(), 200);
        }
    }

    #[test]
    #[cfg(feature = "serde")]
    fn test_char_bad_deser() {
        let json = r#"{"sampler":{"low":4294967200,"range":0,"thresh":0}}"#;
        let result = serde_json::from_str::<Uniform<char>>(json);
        assert!(result.is_err());
        let err = result.unwrap_err();
        assert_eq!(err.classify(), serde_json::error::Category::Data);

        #[cfg(feature = "alloc")]
        {
            assert_eq!(
                alloc::string::ToString::to_string(&err),
                "bad sampler range for UniformChar at line 1 column 51"
            );
        }
    }

    #[test]
    #[cfg_attr(miri, ignore)] // Miri is too slow
    fn test_durations() {
        let mut rng = crate::test::rng(253);

        let v = &[
            (Duration::new(10, 50000), Duration::new(100, 1234)),
            (Duration::new(0, 100), Duration::new(1, 50)),
            (Duration::new(0, 0), Duration::new(u64::MAX, 999_999_999)),
        ];
        for &(low, high) in v.iter() {
            let my_uniform = Uniform::new(low, high).unwrap();
            for _ in 0..1000 {
                let v = rng.sample(my_uniform);
                assert!(low <= v && v < high);
            }
        }
    }
}
