// Copyright 2021 Developers of the Rand project.
//
// Licensed under the Apache License, Version 2.0 <LICENSE-APACHE or
// https://www.apache.org/licenses/LICENSE-2.0> or the MIT license
// <LICENSE-MIT or https://opensource.org/licenses/MIT>, at your
// option. This file may not be copied, modified, or distributed
// except according to those terms.

//! Distributions over slices

use core::num::NonZeroUsize;

use crate::distr::uniform::{UniformSampler, UniformUsize};
use crate::distr::Distribution;
#[cfg(feature = "alloc")]
use alloc::string::String;

/// A distribution to uniformly sample elements of a slice
///
/// Like [`IndexedRandom::choose`], this uniformly samples elements of a slice
/// without modification of the slice (so called "sampling with replacement").
/// This distribution object may be a little faster for repeated sampling (but
/// slower for small numbers of samples).
///
/// ## Examples
///
/// Since this is a distribution, [`Rng::sample_iter`] and
/// [`Distribution::sample_iter`] may be used, for example:
/// ```
/// use rand::distr::{Distribution, slice::Choose};
///
/// let vowels = ['a', 'e', 'i', 'o', 'u'];
/// let vowels_dist = Choose::new(&vowels).unwrap();
///
/// // build a string of 10 vowels
/// let vowel_string: String = vowels_dist
///     .sample_iter(&mut rand::rng())
///     .take(10)
///     .collect();
///
/// println!("{}", vowel_string);
/// assert_eq!(vowel_string.len(), 10);
/// assert!(vowel_string.chars().all(|c| vowels.contains(&c)));
/// ```
///
/// For a single sample, [`IndexedRandom::choose`] may be preferred:
/// ```
/// use rand::seq::IndexedRandom;
///
/// let vowels = ['a', 'e', 'i', 'o', 'u'];
/// let mut rng = rand::rng();
///
/// println!("{}", vowels.choose(&mut rng).unwrap());
/// ```
///
/// [`IndexedRandom::choose`]: crate::seq::IndexedRandom::choose
/// [`Rng::sample_iter`]: crate::Rng::sample_iter
#[derive(Debug, Clone, Copy)]
pub struct Choose<'a, T> {
    slice: &'a [T],
    range: UniformUsize,
    num_choices: NonZeroUsize,
}

impl<'a, T> Choose<'a, T> {
    /// Create a new `Choose` instance which samples uniformly from the slice.
    ///
    /// Returns error [`Empty`] if the slice is empty.
    pub fn new(slice: &'a [T]) -> Result<Self, Empty> {
        let num_choices = NonZeroUsize::new(slice.len()).ok_or(Empty)?;

        Ok(Self {
            slice,
            range: UniformUsize::new(0, num_choices.get()).unwrap(),
            num_choices,
        })
    }

    /// Returns the count of choices in this distribution
    pub fn num_choices(&self) -> NonZeroUsize {
        self.num_choices
    }
}

impl<'a, T> Distribution<&'a T> for Choose<'a, T> {
    fn sample<R: crate::Rng + ?Sized>(&self, rng: &mut R) -> &'a T {
        let idx = self.range.sample(rng);

        debug_assert!(
            idx < self.slice.len(),
            "Uniform::new(0, {}) somehow returned {}",
            self.slice.len(),
            idx
        );

        // Safety: at construction time, it was ensured that the slice was
        // non-empty, and that the `Uniform` range produces values in range
        // for the slice
        unsafe { self.slice.get_unchecked(idx) }
    }
}

/// Error: empty slice
///
/// This error is returned when [`Choose::new`] is given an empty slice.
#[derive(Debug, Clone, Copy)]
pub struct Empty;

impl core::fmt::Display for Empty {
    fn fmt(&self, f: &mut core::fmt::Formatter<'_>) -> core::fmt::Result {
        write!(
            f,
            "Tried to create a `rand::distr::slice::Choose` with an empty slice"
        )
    }
}

#[cfg(feature = "std")]
impl std::error::Error for Empty {}

#[cfg(feature = "alloc")]
impl super::SampleString for Choose<'_, char> {
    fn append_string<R: crate::Rng + ?Sized>(&self, rng: &mut R, string: &mut String, len: usize) {
        // Get the max char length to minimize extra space.
        // Limit this check to avoid searching for long slice.
        let max_char_len = if self.slice.len() < 200 {
            self.slice
                .iter()
                .try_fold(1, |max_len, char| {
                    // When the current max_len is 4, the result max_char_len will be 4.
                    Some(max_len.max(char.len_utf8())).filter(|len| *len < 4)
                })
                .unwrap_or(4)
        } else {
            4
        };

        // Split the extension of string to reuse the unused capacities.
        // Skip the split for small length or only ascii slice.
        let mut extend_len = if max_char_len == 1 || len < 100 {
            len
        } else {
            len / 4
        };
        let mut remain_len = len;
        while extend_len > 0 {
            string.reserve(max_char_len * extend_len);
            string.extend(self.sample_iter(&mut *rng).take(extend_len));
            remain_len -= extend_len;
            extend_len = extend_len.min(remain_len);
        }
    }
}

#[cfg(test)]
mod test {
    use super::*;
    use core::iter;

    #[test]
    fn value_stability() {
        let rng = crate::test::rng(651);
        let slice = Choose::new(b"escaped emus explore extensively").unwrap();
        let expected = b"eaxee";
        assert!(iter::zip(slice.sample_iter(rng), expected).all(|(a, b)| a == b));
    }
}
