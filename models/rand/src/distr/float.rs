// Copyright 2018 Developers of the Rand project.
//
// Licensed under the Apache License, Version 2.0 <LICENSE-APACHE or
// https://www.apache.org/licenses/LICENSE-2.0> or the MIT license
// <LICENSE-MIT or https://opensource.org/licenses/MIT>, at your
// option. This file may not be copied, modified, or distributed
// except according to those terms.

//! Basic floating-point number distributions

use crate::distr::utils::{FloatAsSIMD, FloatSIMDUtils, IntAsSIMD};
use crate::distr::{Distribution, StandardUniform};
use crate::Rng;
use core::mem;
#[cfg(feature = "simd_support")]
use core::simd::prelude::*;

#[cfg(feature = "serde")]
use serde::{Deserialize, Serialize};

/// A distribution to sample floating point numbers uniformly in the half-open
/// interval `(0, 1]`, i.e. including 1 but not 0.
///
/// All values that can be generated are of the form `n * ε/2`. For `f32`
/// the 24 most significant random bits of a `u32` are used and for `f64` the
/// 53 most significant bits of a `u64` are used. The conversion uses the
/// multiplicative method.
///
/// See also: [`StandardUniform`] which samples from `[0, 1)`, [`Open01`]
/// which samples from `(0, 1)` and [`Uniform`] which samples from arbitrary
/// ranges.
///
/// # Example
/// ```
/// use rand::Rng;
/// use rand::distr::OpenClosed01;
///
/// let val: f32 = rand::rng().sample(OpenClosed01);
/// println!("f32 from (0, 1): {}", val);
/// ```
///
/// [`StandardUniform`]: crate::distr::StandardUniform
/// [`Open01`]: crate::distr::Open01
/// [`Uniform`]: crate::distr::uniform::Uniform
#[derive(Clone, Copy, Debug, Default)]
#[cfg_attr(feature = "serde", derive(Serialize, Deserialize))]
pub struct OpenClosed01;

/// A distribution to sample floating point numbers uniformly in the open
/// interval `(0, 1)`, i.e. not including either endpoint.
///
/// All values that can be generated are of the form `n * ε + ε/2`. For `f32`
/// the 23 most significant random bits of an `u32` are used, for `f64` 52 from
/// an `u64`. The conversion uses a transmute-based method.
///
/// See also: [`StandardUniform`] which samples from `[0, 1)`, [`OpenClosed01`]
/// which samples from `(0, 1]` and [`Uniform`] which samples from arbitrary
/// ranges.
///
/// # Example
/// ```
/// use rand::Rng;
/// use rand::distr::Open01;
///
/// let val: f32 = rand::rng().sample(Open01);
/// println!("f32 from (0, 1): {}", val);
/// ```
///
/// [`StandardUniform`]: crate::distr::StandardUniform
/// [`OpenClosed01`]: crate::distr::OpenClosed01
/// [`Uniform`]: crate::distr::uniform::Uniform
#[derive(Clone, Copy, Debug, Default)]
#[cfg_attr(feature = "serde", derive(Serialize, Deserialize))]
pub struct Open01;

// This trait is needed by both this lib and rand_distr hence is a hidden export
#[doc(hidden)]
pub trait IntoFloat {
    type F;

    /// Helper method to combine the fraction and a constant exponent into a
    /// float.
    ///
    /// Only the least significant bits of `self` may be set, 23 for `f32` and
    /// 52 for `f64`.
    /// The resulting value will fall in a range that depends on the exponent.
    /// As an example the range with exponent 0 will be
    /// [2<sup>0</sup>..2<sup>1</sup>), which is [1..2).
    fn into_float_with_exponent(self, exponent: i32) -> Self::F;
}

macro_rules! float_impls {
    ($($meta:meta)?, $ty:ident, $uty:ident, $f_scalar:ident, $u_scalar:ty,
     $fraction_bits:expr, $exponent_bias:expr) => {
        $(#[cfg($meta)])?
        impl IntoFloat for $uty {
            type F = $ty;
            #[inline(always)]
            fn into_float_with_exponent(self, exponent: i32) -> $ty {
                // The exponent is encoded using an offset-binary representation
                let exponent_bits: $u_scalar =
                    (($exponent_bias + exponent) as $u_scalar) << $fraction_bits;
                $ty::from_bits(self | $uty::splat(exponent_bits))
            }
        }

        $(#[cfg($meta)])?
        impl Distribution<$ty> for StandardUniform {
            fn sample<R: Rng + ?Sized>(&self, rng: &mut R) -> $ty {
                // Multiply-based method; 24/53 random bits; [0, 1) interval.
                // We use the most significant bits because for simple RNGs
                // those are usually more random.
                let float_size = mem::size_of::<$f_scalar>() as $u_scalar * 8;
                let precision = $fraction_bits + 1;
                let scale = 1.0 / ((1 as $u_scalar << precision) as $f_scalar);

                let value: $uty = rng.random();
                let value = value >> $uty::splat(float_size - precision);
                $ty::splat(scale) * $ty::cast_from_int(value)
            }
        }

        $(#[cfg($meta)])?
        impl Distribution<$ty> for OpenClosed01 {
            fn sample<R: Rng + ?Sized>(&self, rng: &mut R) -> $ty {
                // Multiply-based method; 24/53 random bits; (0, 1] interval.
                // We use the most significant bits because for simple RNGs
                // those are usually more random.
                let float_size = mem::size_of::<$f_scalar>() as $u_scalar * 8;
                let precision = $fraction_bits + 1;
                let scale = 1.0 / ((1 as $u_scalar << precision) as $f_scalar);

                let value: $uty = rng.random();
                let value = value >> $uty::splat(float_size - precision);
                // Add 1 to shift up; will not overflow because of right-shift:
                $ty::splat(scale) * $ty::cast_from_int(value + $uty::splat(1))
            }
        }

        $(#[cfg($meta)])?
        impl Distribution<$ty> for Open01 {
            fn sample<R: Rng + ?Sized>(&self, rng: &mut R) -> $ty {
                // Transmute-based method; 23/52 random bits; (0, 1) interval.
                // We use the most significant bits because for simple RNGs
                // those are usually more random.
                let float_size = mem::size_of::<$f_scalar>() as $u_scalar * 8;

                let value: $uty = rng.random();
                let fraction = value >> $uty::splat(float_size - $fraction_bits);
                fraction.into_float_with_exponent(0) - $ty::splat(1.0 - $f_scalar::EPSILON / 2.0)
            }
        }
    }
}

float_impls! { , f32, u32, f32, u32, 23, 127 }
float_impls! { , f64, u64, f64, u64, 52, 1023 }

#[cfg(feature = "simd_support")]
float_impls! { feature = "simd_support", f32x2, u32x2, f32, u32, 23, 127 }
#[cfg(feature = "simd_support")]
float_impls! { feature = "simd_support", f32x4, u32x4, f32, u32, 23, 127 }
#[cfg(feature = "simd_support")]
float_impls! { feature = "simd_support", f32x8, u32x8, f32, u32, 23, 127 }
#[cfg(feature = "simd_support")]
float_impls! { feature = "simd_support", f32x16, u32x16, f32, u32, 23, 127 }

#[cfg(feature = "simd_support")]
float_impls! { feature = "simd_support", f64x2, u64x2, f64, u64, 52, 1023 }
#[cfg(feature = "simd_support")]
float_impls! { feature = "simd_support", f64x4, u64x4, f64, u64, 52, 1023 }
#[cfg(feature = "simd_support")]
float_impls! { feature = "simd_support", f64x8, u64x8, f64, u64, 52, 1023 }

#[cfg(test)]
mod tests {
    use super::*;
    use crate::test::const_rng;

    const EPSILON32: f32 = f32::EPSILON;
    const EPSILON64: f64 = f64::EPSILON;

    macro_rules! test_f32 {
        ($fnn:ident, $ty:ident, $ZERO:expr, $EPSILON:expr) => {
            #[test]
            fn $fnn() {
                let two = $ty::splat(2.0);

                // StandardUniform
                let mut zeros = const_rng(0);
                assert_eq!(zeros.random::<$ty>(), $ZERO);
                let mut one = const_rng(1 << 8 | 1 << (8 + 32));
                assert_eq!(one.random::<$ty>(), $EPSILON / two);
                let mut max = const_rng(!0);
                assert_eq!(max.random::<$ty>(), $ty::splat(1.0) - $EPSILON / two);

                // OpenClosed01
                let mut zeros = const_rng(0);
                assert_eq!(zeros.sample::<$ty, _>(OpenClosed01), $ZERO + $EPSILON / two);
                let mut one = const_rng(1 << 8 | 1 << (8 + 32));
                assert_eq!(one.sample::<$ty, _>(OpenClosed01), $EPSILON);
                let mut max = const_rng(!0);
                assert_eq!(max.sample::<$ty, _>(OpenClosed01), $ZERO + $ty::splat(1.0));

                // Open01
                let mut zeros = const_rng(0);
                assert_eq!(zeros.sample::<$ty, _>(Open01), $ZERO + $EPSILON / two);
                let mut one = const_rng(1 << 9 | 1 << (9 + 32));
                assert_eq!(
                    one.sample::<$ty, _>(Open01),
                    $EPSILON / two * $ty::splat(3.0)
                );
                let mut max = const_rng(!0);
                assert_eq!(
                    max.sample::<$ty, _>(Open01),
                    $ty::splat(1.0) - $EPSILON / two
                );
            }
        };
    }
    test_f32! { f32_edge_cases, f32, 0.0, EPSILON32 }
    #[cfg(feature = "simd_support")]
    test_f32! { f32x2_edge_cases, f32x2, f32x2::splat(0.0), f32x2::splat(EPSILON32) }
    #[cfg(feature = "simd_support")]
    test_f32! { f32x4_edge_cases, f32x4, f32x4::splat(0.0), f32x4::splat(EPSILON32) }
    #[cfg(feature = "simd_support")]
    test_f32! { f32x8_edge_cases, f32x8, f32x8::splat(0.0), f32x8::splat(EPSILON32) }
    #[cfg(feature = "simd_support")]
    test_f32! { f32x16_edge_cases, f32x16, f32x16::splat(0.0), f32x16::splat(EPSILON32) }

    macro_rules! test_f64 {
        ($fnn:ident, $ty:ident, $ZERO:expr, $EPSILON:expr) => {
            #[test]
            fn $fnn() {
                let two = $ty::splat(2.0);

                // StandardUniform
                let mut zeros = const_rng(0);
                assert_eq!(zeros.random::<$ty>(), $ZERO);
                let mut one = const_rng(1 << 11);
                assert_eq!(one.random::<$ty>(), $EPSILON / two);
                let mut max = const_rng(!0);
                assert_eq!(max.random::<$ty>(), $ty::splat(1.0) - $EPSILON / two);

                // OpenClosed01
                let mut zeros = const_rng(0);
                assert_eq!(zeros.sample::<$ty, _>(OpenClosed01), $ZERO + $EPSILON / two);
                let mut one = const_rng(1 << 11);
                assert_eq!(one.sample::<$ty, _>(OpenClosed01), $EPSILON);
                let mut max = const_rng(!0);
                assert_eq!(max.sample::<$ty, _>(OpenClosed01), $ZERO + $ty::splat(1.0));

                // Open01
                let mut zeros = const_rng(0);
                assert_eq!(zeros.sample::<$ty, _>(Open01), $ZERO + $EPSILON / two);
                let mut one = const_rng(1 << 12);
                assert_eq!(
                    one.sample::<$ty, _>(Open01),
                    $EPSILON / two * $ty::splat(3.0)
                );
                let mut max = const_rng(!0);
                assert_eq!(
                    max.sample::<$ty, _>(Open01),
                    $ty::splat(1.0) - $EPSILON / two
                );
            }
        };
    }
    test_f64! { f64_edge_cases, f64, 0.0, EPSILON64 }
    #[cfg(feature = "simd_support")]
    test_f64! { f64x2_edge_cases, f64x2, f64x2::splat(0.0), f64x2::splat(EPSILON64) }
    #[cfg(feature = "simd_support")]
    test_f64! { f64x4_edge_cases, f64x4, f64x4::splat(0.0), f64x4::splat(EPSILON64) }
    #[cfg(feature = "simd_support")]
    test_f64! { f64x8_edge_cases, f64x8, f64x8::splat(0.0), f64x8::splat(EPSILON64) }

    #[test]
    fn value_stability() {
        fn test_samples<T: Copy + core::fmt::Debug + PartialEq, D: Distribution<T>>(
            distr: &D,
            zero: T,
            expected: &[T],
        ) {
            let mut rng = crate::test::rng(0x6f44f5646c2a7334);
            let mut buf = [zero; 3];
            for x in &mut buf {
                *x = rng.sample(distr);
            }
            assert_eq!(&buf, expected);
        }

        test_samples(
            &StandardUniform,
            0f32,
            &[0.0035963655, 0.7346052, 0.09778172],
        );
        test_samples(
            &StandardUniform,
            0f64,
            &[0.7346051961657583, 0.20298547462974248, 0.8166436635290655],
        );

        test_samples(&OpenClosed01, 0f32, &[0.003596425, 0.73460525, 0.09778178]);
        test_samples(
            &OpenClosed01,
            0f64,
            &[0.7346051961657584, 0.2029854746297426, 0.8166436635290656],
        );

        test_samples(&Open01, 0f32, &[0.0035963655, 0.73460525, 0.09778172]);
        test_samples(
            &Open01,
            0f64,
            &[0.7346051961657584, 0.20298547462974248, 0.8166436635290656],
        );

        #[cfg(feature = "simd_support")]
        {
            // We only test a sub-set of types here. Values are identical to
            // non-SIMD types; we assume this pattern continues across all
            // SIMD types.

            test_samples(
                &StandardUniform,
                f32x2::from([0.0, 0.0]),
                &[
                    f32x2::from([0.0035963655, 0.7346052]),
                    f32x2::from([0.09778172, 0.20298547]),
                    f32x2::from([0.34296435, 0.81664366]),
                ],
            );

            test_samples(
                &StandardUniform,
                f64x2::from([0.0, 0.0]),
                &[
                    f64x2::from([0.7346051961657583, 0.20298547462974248]),
                    f64x2::from([0.8166436635290655, 0.7423708925400552]),
                    f64x2::from([0.16387782224016323, 0.9087068770169618]),
                ],
            );
        }
    }
}
