// Copyright 2018-2020 Developers of the Rand project.
// Copyright 2017 The Rust Project Developers.
//
// Licensed under the Apache License, Version 2.0 <LICENSE-APACHE or
// https://www.apache.org/licenses/LICENSE-2.0> or the MIT license
// <LICENSE-MIT or https://opensource.org/licenses/MIT>, at your
// option. This file may not be copied, modified, or distributed
// except according to those terms.

//! A distribution uniformly sampling numbers within a given range.
//!
//! [`Uniform`] is the standard distribution to sample uniformly from a range;
//! e.g. `Uniform::new_inclusive(1, 6).unwrap()` can sample integers from 1 to 6, like a
//! standard die. [`Rng::random_range`] is implemented over [`Uniform`].
//!
//! # Example usage
//!
//! ```
//! use rand::Rng;
//! use rand::distr::Uniform;
//!
//! let mut rng = rand::rng();
//! let side = Uniform::new(-10.0, 10.0).unwrap();
//!
//! // sample between 1 and 10 points
//! for _ in 0..rng.random_range(1..=10) {
//!     // sample a point from the square with sides -10 - 10 in two dimensions
//!     let (x, y) = (rng.sample(side), rng.sample(side));
//!     println!("Point: {}, {}", x, y);
//! }
//! ```
//!
//! # Extending `Uniform` to support a custom type
//!
//! To extend [`Uniform`] to support your own types, write a back-end which
//! implements the [`UniformSampler`] trait, then implement the [`SampleUniform`]
//! helper trait to "register" your back-end. See the `MyF32` example below.
//!
//! At a minimum, the back-end needs to store any parameters needed for sampling
//! (e.g. the target range) and implement `new`, `new_inclusive` and `sample`.
//! Those methods should include an assertion to check the range is valid (i.e.
//! `low < high`). The example below merely wraps another back-end.
//!
//! The `new`, `new_inclusive`, `sample_single` and `sample_single_inclusive`
//! functions use arguments of
//! type `SampleBorrow<X>` to support passing in values by reference or
//! by value. In the implementation of these functions, you can choose to
//! simply use the reference returned by [`SampleBorrow::borrow`], or you can choose
//! to copy or clone the value, whatever is appropriate for your type.
//!
//! ```
//! use rand::prelude::*;
//! use rand::distr::uniform::{Uniform, SampleUniform,
//!         UniformSampler, UniformFloat, SampleBorrow, Error};
//!
//! struct MyF32(f32);
//!
//! #[derive(Clone, Copy, Debug)]
//! struct UniformMyF32(UniformFloat<f32>);
//!
//! impl UniformSampler for UniformMyF32 {
//!     type X = MyF32;
//!
//!     fn new<B1, B2>(low: B1, high: B2) -> Result<Self, Error>
//!         where B1: SampleBorrow<Self::X> + Sized,
//!               B2: SampleBorrow<Self::X> + Sized
//!     {
//!         UniformFloat::<f32>::new(low.borrow().0, high.borrow().0).map(UniformMyF32)
//!     }
//!     fn new_inclusive<B1, B2>(low: B1, high: B2) -> Result<Self, Error>
//!         where B1: SampleBorrow<Self::X> + Sized,
//!               B2: SampleBorrow<Self::X> + Sized
//!     {
//!         UniformFloat::<f32>::new_inclusive(low.borrow().0, high.borrow().0).map(UniformMyF32)
//!     }
//!     fn sample<R: Rng + ?Sized>(&self, rng: &mut R) -> Self::X {
//!         MyF32(self.0.sample(rng))
//!     }
//! }
//!
//! impl SampleUniform for MyF32 {
//!     type Sampler = UniformMyF32;
//! }
//!
//! let (low, high) = (MyF32(17.0f32), MyF32(22.0f32));
//! let uniform = Uniform::new(low, high).unwrap();
//! let x = uniform.sample(&mut rand::rng());
//! ```
//!
//! [`SampleUniform`]: crate::distr::uniform::SampleUniform
//! [`UniformSampler`]: crate::distr::uniform::UniformSampler
//! [`UniformInt`]: crate::distr::uniform::UniformInt
//! [`UniformFloat`]: crate::distr::uniform::UniformFloat
//! [`UniformDuration`]: crate::distr::uniform::UniformDuration
//! [`SampleBorrow::borrow`]: crate::distr::uniform::SampleBorrow::borrow

#[path = "uniform_float.rs"]
mod float;
#[doc(inline)]
pub use float::UniformFloat;

#[path = "uniform_int.rs"]
mod int;
#[doc(inline)]
pub use int::{UniformInt, UniformUsize};

#[path = "uniform_other.rs"]
mod other;
#[doc(inline)]
pub use other::{UniformChar, UniformDuration};

use core::fmt;
use core::ops::{Range, RangeInclusive, RangeTo, RangeToInclusive};

use crate::distr::Distribution;
use crate::{Rng, RngCore};

/// Error type returned from [`Uniform::new`] and `new_inclusive`.
#[derive(Clone, Copy, Debug, PartialEq, Eq)]
pub enum Error {
    /// `low > high`, or equal in case of exclusive range.
    EmptyRange,
    /// Input or range `high - low` is non-finite. Not relevant to integer types.
    NonFinite,
}

impl fmt::Display for Error {
    fn fmt(&self, f: &mut fmt::Formatter<'_>) -> fmt::Result {
        f.write_str(match self {
            Error::EmptyRange => "low > high (or equal if exclusive) in uniform distribution",
            Error::NonFinite => "Non-finite range in uniform distribution",
        })
    }
}

#[cfg(feature = "std")]
impl std::error::Error for Error {}

#[cfg(feature = "serde")]
use serde::{Deserialize, Serialize};

/// Sample values uniformly between two bounds.
///
/// # Construction
///
/// [`Uniform::new`] and [`Uniform::new_inclusive`] construct a uniform
/// distribution sampling from the given `low` and `high` limits. `Uniform` may
/// also be constructed via [`TryFrom`] as in `Uniform::try_from(1..=6).unwrap()`.
///
/// Constructors may do extra work up front to allow faster sampling of multiple
/// values. Where only a single sample is required it is suggested to use
/// [`Rng::random_range`] or one of the `sample_single` methods instead.
///
/// When sampling from a constant range, many calculations can happen at
/// compile-time and all methods should be fast; for floating-point ranges and
/// the full range of integer types, this should have comparable performance to
/// the [`StandardUniform`](super::StandardUniform) distribution.
///
/// # Provided implementations
///
/// - `char` ([`UniformChar`]): samples a range over the implementation for `u32`
/// - `f32`, `f64` ([`UniformFloat`]): samples approximately uniformly within a
///   range; bias may be present in the least-significant bit of the significand
///   and the limits of the input range may be sampled even when an open
///   (exclusive) range is used
/// - Integer types ([`UniformInt`]) may show a small bias relative to the
///   expected uniform distribution of output. In the worst case, bias affects
///   1 in `2^n` samples where n is 56 (`i8` and `u8`), 48 (`i16` and `u16`), 96
///   (`i32` and `u32`), 64 (`i64` and `u64`), 128 (`i128` and `u128`).
///   The `unbiased` feature flag fixes this bias.
/// - `usize` ([`UniformUsize`]) is handled specially, using the `u32`
///   implementation where possible to enable portable results across 32-bit and
///   64-bit CPU architectures.
/// - `Duration` ([`UniformDuration`]): samples a range over the implementation
///   for `u32` or `u64`
/// - SIMD types (requires [`simd_support`] feature) like x86's [`__m128i`]
///   and `std::simd`'s [`u32x4`], [`f32x4`] and [`mask32x4`] types are
///   effectively arrays of integer or floating-point types. Each lane is
///   sampled independently from its own range, potentially with more efficient
///   random-bit-usage than would be achieved with sequential sampling.
///
/// # Example
///
/// ```
/// use rand::distr::{Distribution, Uniform};
///
/// let between = Uniform::try_from(10..10000).unwrap();
/// let mut rng = rand::rng();
/// let mut sum = 0;
/// for _ in 0..1000 {
///     sum += between.sample(&mut rng);
/// }
/// println!("{}", sum);
/// ```
///
/// For a single sample, [`Rng::random_range`] may be preferred:
///
/// ```
/// use rand::Rng;
///
/// let mut rng = rand::rng();
/// println!("{}", rng.random_range(0..10));
/// ```
///
/// [`new`]: Uniform::new
/// [`new_inclusive`]: Uniform::new_inclusive
/// [`Rng::random_range`]: Rng::random_range
/// [`__m128i`]: https://doc.rust-lang.org/core/arch/x86/struct.__m128i.html
/// [`u32x4`]: std::simd::u32x4
/// [`f32x4`]: std::simd::f32x4
/// [`mask32x4`]: std::simd::mask32x4
/// [`simd_support`]: https://github.com/rust-random/rand#crate-features
#[derive(Clone, Copy, Debug, PartialEq, Eq)]
#[cfg_attr(feature = "serde", derive(Serialize, Deserialize))]
#[cfg_attr(feature = "serde", serde(bound(serialize = "X::Sampler: Serialize")))]
#[cfg_attr(
    feature = "serde",
    serde(bound(deserialize = "X::Sampler: Deserialize<'de>"))
)]
pub struct Uniform<X: SampleUniform>(X::Sampler);

impl<X: SampleUniform> Uniform<X> {
    /// Create a new `Uniform` instance, which samples uniformly from the half
    /// open range `[low, high)` (excluding `high`).
    ///
    /// For discrete types (e.g. integers), samples will always be strictly less
    /// than `high`. For (approximations of) continuous types (e.g. `f32`, `f64`),
    /// samples may equal `high` due to loss of precision but may not be
    /// greater than `high`.
    ///
    /// Fails if `low >= high`, or if `low`, `high` or the range `high - low` is
    /// non-finite. In release mode, only the range is checked.
    pub fn new<B1, B2>(low: B1, high: B2) -> Result<Uniform<X>, Error>
    where
        B1: SampleBorrow<X> + Sized,
        B2: SampleBorrow<X> + Sized,
    {
        X::Sampler::new(low, high).map(Uniform)
    }

    /// Create a new `Uniform` instance, which samples uniformly from the closed
    /// range `[low, high]` (inclusive).
    ///
    /// Fails if `low > high`, or if `low`, `high` or the range `high - low` is
    /// non-finite. In release mode, only the range is checked.
    pub fn new_inclusive<B1, B2>(low: B1, high: B2) -> Result<Uniform<X>, Error>
    where
        B1: SampleBorrow<X> + Sized,
        B2: SampleBorrow<X> + Sized,
    {
        X::Sampler::new_inclusive(low, high).map(Uniform)
    }
}

impl<X: SampleUniform> Distribution<X> for Uniform<X> {
    fn sample<R: Rng + ?Sized>(&self, rng: &mut R) -> X {
        self.0.sample(rng)
    }
}

/// Helper trait for creating objects using the correct implementation of
/// [`UniformSampler`] for the sampling type.
///
/// See the [module documentation] on how to implement [`Uniform`] range
/// sampling for a custom type.
///
/// [module documentation]: crate::distr::uniform
pub trait SampleUniform: Sized {
    /// The `UniformSampler` implementation supporting type `X`.
    type Sampler: UniformSampler<X = Self>;
}

/// Helper trait handling actual uniform sampling.
///
/// See the [module documentation] on how to implement [`Uniform`] range
/// sampling for a custom type.
///
/// Implementation of [`sample_single`] is optional, and is only useful when
/// the implementation can be faster than `Self::new(low, high).sample(rng)`.
///
/// [module documentation]: crate::distr::uniform
/// [`sample_single`]: UniformSampler::sample_single
pub trait UniformSampler: Sized {
    /// The type sampled by this implementation.
    type X;

    /// Construct self, with inclusive lower bound and exclusive upper bound `[low, high)`.
    ///
    /// For discrete types (e.g. integers), samples will always be strictly less
    /// than `high`. For (approximations of) continuous types (e.g. `f32`, `f64`),
    /// samples may equal `high` due to loss of precision but may not be
    /// greater than `high`.
    ///
    /// Usually users should not call this directly but prefer to use
    /// [`Uniform::new`].
    fn new<B1, B2>(low: B1, high: B2) -> Result<Self, Error>
    where
        B1: SampleBorrow<Self::X> + Sized,
        B2: SampleBorrow<Self::X> + Sized;

    /// Construct self, with inclusive bounds `[low, high]`.
    ///
    /// Usually users should not call this directly but prefer to use
    /// [`Uniform::new_inclusive`].
    fn new_inclusive<B1, B2>(low: B1, high: B2) -> Result<Self, Error>
    where
        B1: SampleBorrow<Self::X> + Sized,
        B2: SampleBorrow<Self::X> + Sized;

    /// Sample a value.
    fn sample<R: Rng + ?Sized>(&self, rng: &mut R) -> Self::X;

    /// Sample a single value uniformly from a range with inclusive lower bound
    /// and exclusive upper bound `[low, high)`.
    ///
    /// For discrete types (e.g. integers), samples will always be strictly less
    /// than `high`. For (approximations of) continuous types (e.g. `f32`, `f64`),
    /// samples may equal `high` due to loss of precision but may not be
    /// greater than `high`.
    ///
    /// By default this is implemented using
    /// `UniformSampler::new(low, high).sample(rng)`. However, for some types
    /// more optimal implementations for single usage may be provided via this
    /// method (which is the case for integers and floats).
    /// Results may not be identical.
    ///
    /// Note that to use this method in a generic context, the type needs to be
    /// retrieved via `SampleUniform::Sampler` as follows:
    /// ```
    /// use rand::distr::uniform::{SampleUniform, UniformSampler};
    /// # #[allow(unused)]
    /// fn sample_from_range<T: SampleUniform>(lb: T, ub: T) -> T {
    ///     let mut rng = rand::rng();
    ///     <T as SampleUniform>::Sampler::sample_single(lb, ub, &mut rng).unwrap()
    /// }
    /// ```
    fn sample_single<R: Rng + ?Sized, B1, B2>(
        low: B1,
        high: B2,
        rng: &mut R,
    ) -> Result<Self::X, Error>
    where
        B1: SampleBorrow<Self::X> + Sized,
        B2: SampleBorrow<Self::X> + Sized,
    {
        let uniform: Self = UniformSampler::new(low, high)?;
        Ok(uniform.sample(rng))
    }

    /// Sample a single value uniformly from a range with inclusive lower bound
    /// and inclusive upper bound `[low, high]`.
    ///
    /// By default this is implemented using
    /// `UniformSampler::new_inclusive(low, high).sample(rng)`. However, for
    /// some types more optimal implementations for single usage may be provided
    /// via this method.
    /// Results may not be identical.
    fn sample_single_inclusive<R: Rng + ?Sized, B1, B2>(
        low: B1,
        high: B2,
        rng: &mut R,
    ) -> Result<Self::X, Error>
    where
        B1: SampleBorrow<Self::X> + Sized,
        B2: SampleBorrow<Self::X> + Sized,
    {
        let uniform: Self = UniformSampler::new_inclusive(low, high)?;
        Ok(uniform.sample(rng))
    }
}

impl<X: SampleUniform> TryFrom<Range<X>> for Uniform<X> {
    type Error = Error;

    fn try_from(r: Range<X>) -> Result<Uniform<X>, Error> {
        Uniform::new(r.start, r.end)
    }
}

impl<X: SampleUniform> TryFrom<RangeInclusive<X>> for Uniform<X> {
    type Error = Error;

    fn try_from(r: ::core::ops::RangeInclusive<X>) -> Result<Uniform<X>, Error> {
        Uniform::new_inclusive(r.start(), r.end())
    }
}

/// Helper trait similar to [`Borrow`] but implemented
/// only for [`SampleUniform`] and references to [`SampleUniform`]
/// in order to resolve ambiguity issues.
///
/// [`Borrow`]: std::borrow::Borrow
pub trait SampleBorrow<Borrowed> {
    /// Immutably borrows from an owned value. See [`Borrow::borrow`]
    ///
    /// [`Borrow::borrow`]: std::borrow::Borrow::borrow
    fn borrow(&self) -> &Borrowed;
}
impl<Borrowed> SampleBorrow<Borrowed> for Borrowed
where
    Borrowed: SampleUniform,
{
    #[inline(always)]
    fn borrow(&self) -> &Borrowed {
        self
    }
}
impl<Borrowed> SampleBorrow<Borrowed> for &Borrowed
where
    Borrowed: SampleUniform,
{
    #[inline(always)]
    fn borrow(&self) -> &Borrowed {
        self
    }
}

/// Range that supports generating a single sample efficiently.
///
/// Any type implementing this trait can be used to specify the sampled range
/// for `Rng::random_range`.
pub trait SampleRange<T> {
    /// Generate a sample from the given range.
    fn sample_single<R: RngCore + ?Sized>(self, rng: &mut R) -> Result<T, Error>;

    /// Check whether the range is empty.
    fn is_empty(&self) -> bool;
}

impl<T: SampleUniform + PartialOrd> SampleRange<T> for Range<T> {
    #[inline]
    fn sample_single<R: RngCore + ?Sized>(self, rng: &mut R) -> Result<T, Error> {
        T::Sampler::sample_single(self.start, self.end, rng)
    }

    #[inline]
    fn is_empty(&self) -> bool {
        !(self.start < self.end)
    }
}

impl<T: SampleUniform + PartialOrd> SampleRange<T> for RangeInclusive<T> {
    #[inline]
    fn sample_single<R: RngCore + ?Sized>(self, rng: &mut R) -> Result<T, Error> {
        T::Sampler::sample_single_inclusive(self.start(), self.end(), rng)
    }

    #[inline]
    fn is_empty(&self) -> bool {
        !(self.start() <= self.end())
    }
}

macro_rules! impl_sample_range_u {
    ($t:ty) => {
        impl SampleRange<$t> for RangeTo<$t> {
            #[inline]
            fn sample_single<R: RngCore + ?Sized>(self, rng: &mut R) -> Result<$t, Error> {
                <$t as SampleUniform>::Sampler::sample_single(0, self.end, rng)
            }

            #[inline]
            fn is_empty(&self) -> bool {
                0 == self.end
            }
        }

        impl SampleRange<$t> for RangeToInclusive<$t> {
            #[inline]
            fn sample_single<R: RngCore + ?Sized>(self, rng: &mut R) -> Result<$t, Error> {
                <$t as SampleUniform>::Sampler::sample_single_inclusive(0, self.end, rng)
            }

            #[inline]
            fn is_empty(&self) -> bool {
                false
            }
        }
    };
}

impl_sample_range_u!(u8);
impl_sample_range_u!(u16);
impl_sample_range_u!(u32);
impl_sample_range_u!(u64);
impl_sample_range_u!(u128);
impl_sample_range_u!(usize);

#[cfg(test)]
mod tests {
    use super::*;
    use core::time::Duration;

    #[test]
    #[cfg(feature = "serde")]
    fn test_uniform_serialization() {
        let unit_box: Uniform<i32> = Uniform::new(-1, 1).unwrap();
        let de_unit_box: Uniform<i32> =
            bincode::deserialize(&bincode::serialize(&unit_box).unwrap()).unwrap();
        assert_eq!(unit_box.0, de_unit_box.0);

        let unit_box: Uniform<f32> = Uniform::new(-1., 1.).unwrap();
        let de_unit_box: Uniform<f32> =
            bincode::deserialize(&bincode::serialize(&unit_box).unwrap()).unwrap();
        assert_eq!(unit_box.0, de_unit_box.0);
    }

    #[test]
    fn test_custom_uniform() {
        use crate::distr::uniform::{SampleBorrow, SampleUniform, UniformFloat, UniformSampler};
        #[derive(Clone, Copy, PartialEq, PartialOrd)]
        struct MyF32 {
            x: f32,
        }
        #[derive(Clone, Copy, Debug)]
        struct UniformMyF32(UniformFloat<f32>);
        impl UniformSampler for UniformMyF32 {
            type X = MyF32;

            fn new<B1, B2>(low: B1, high: B2) -> Result<Self, Error>
            where
                B1: SampleBorrow<Self::X> + Sized,
                B2: SampleBorrow<Self::X> + Sized,
            {
                UniformFloat::<f32>::new(low.borrow().x, high.borrow().x).map(UniformMyF32)
            }

            fn new_inclusive<B1, B2>(low: B1, high: B2) -> Result<Self, Error>
            where
                B1: SampleBorrow<Self::X> + Sized,
                B2: SampleBorrow<Self::X> + Sized,
            {
                UniformSampler::new(low, high)
            }

            fn sample<R: Rng + ?Sized>(&self, rng: &mut R) -> Self::X {
                MyF32 {
                    x: self.0.sample(rng),
                }
            }
        }
        impl SampleUniform for MyF32 {
            type Sampler = UniformMyF32;
        }

        let (low, high) = (MyF32 { x: 17.0f32 }, MyF32 { x: 22.0f32 });
        let uniform = Uniform::new(low, high).unwrap();
        let mut rng = crate::test::rng(804);
        for _ in 0..100 {
            let x: MyF32 = rng.sample(uniform);
            assert!(low <= x && x < high);
        }
    }

    #[test]
    fn value_stability() {
        fn test_samples<T: SampleUniform + Copy + fmt::Debug + PartialEq>(
            lb: T,
            ub: T,
            expected_single: &[T],
            expected_multiple: &[T],
        ) where
            Uniform<T>: Distribution<T>,
        {
            let mut rng = crate::test::rng(897);
            let mut buf = [lb; 3];

            for x in &mut buf {
                *x = T::Sampler::sample_single(lb, ub, &mut rng).unwrap();
            }
            assert_eq!(&buf, expected_single);

            let distr = Uniform::new(lb, ub).unwrap();
            for x in &mut buf {
                *x = rng.sample(&distr);
            }
            assert_eq!(&buf, expected_multiple);
        }

        test_samples(
            0f32,
            1e-2f32,
            &[0.0003070104, 0.0026630748, 0.00979833],
            &[0.008194133, 0.00398172, 0.007428536],
        );
        test_samples(
            -1e10f64,
            1e10f64,
            &[-4673848682.871551, 6388267422.932352, 4857075081.198343],
            &[1173375212.1808167, 1917642852.109581, 2365076174.3153973],
        );

        test_samples(
            Duration::new(2, 0),
            Duration::new(4, 0),
            &[
                Duration::new(2, 532615131),
                Duration::new(3, 638826742),
                Duration::new(3, 485707508),
            ],
            &[
                Duration::new(3, 117337521),
                Duration::new(3, 191764285),
                Duration::new(3, 236507617),
            ],
        );
    }

    #[test]
    fn uniform_distributions_can_be_compared() {
        assert_eq!(
            Uniform::new(1.0, 2.0).unwrap(),
            Uniform::new(1.0, 2.0).unwrap()
        );

        // To cover UniformInt
        assert_eq!(
            Uniform::new(1_u32, 2_u32).unwrap(),
            Uniform::new(1_u32, 2_u32).unwrap()
        );
    }
}
