// Copyright 2018-2020 Developers of the Rand project.
// Copyright 2017 The Rust Project Developers.
//
// Licensed under the Apache License, Version 2.0 <LICENSE-APACHE or
// https://www.apache.org/licenses/LICENSE-2.0> or the MIT license
// <LICENSE-MIT or https://opensource.org/licenses/MIT>, at your
// option. This file may not be copied, modified, or distributed
// except according to those terms.

//! `UniformInt` implementation

use super::{Error, SampleBorrow, SampleUniform, UniformSampler};
use crate::distr::utils::WideningMultiply;
#[cfg(feature = "simd_support")]
use crate::distr::{Distribution, StandardUniform};
use crate::Rng;

#[cfg(feature = "simd_support")]
use core::simd::prelude::*;
#[cfg(feature = "simd_support")]
use core::simd::{LaneCount, SupportedLaneCount};

#[cfg(feature = "serde")]
use serde::{Deserialize, Serialize};

/// The back-end implementing [`UniformSampler`] for integer types.
///
/// Unless you are implementing [`UniformSampler`] for your own type, this type
/// should not be used directly, use [`Uniform`] instead.
///
/// # Implementation notes
///
/// For simplicity, we use the same generic struct `UniformInt<X>` for all
/// integer types `X`. This gives us only one field type, `X`; to store unsigned
/// values of this size, we take use the fact that these conversions are no-ops.
///
/// For a closed range, the number of possible numbers we should generate is
/// `range = (high - low + 1)`. To avoid bias, we must ensure that the size of
/// our sample space, `zone`, is a multiple of `range`; other values must be
/// rejected (by replacing with a new random sample).
///
/// As a special case, we use `range = 0` to represent the full range of the
/// result type (i.e. for `new_inclusive($ty::MIN, $ty::MAX)`).
///
/// The optimum `zone` is the largest product of `range` which fits in our
/// (unsigned) target type. We calculate this by calculating how many numbers we
/// must reject: `reject = (MAX + 1) % range = (MAX - range + 1) % range`. Any (large)
/// product of `range` will suffice, thus in `sample_single` we multiply by a
/// power of 2 via bit-shifting (faster but may cause more rejections).
///
/// The smallest integer PRNGs generate is `u32`. For 8- and 16-bit outputs we
/// use `u32` for our `zone` and samples (because it's not slower and because
/// it reduces the chance of having to reject a sample). In this case we cannot
/// store `zone` in the target type since it is too large, however we know
/// `ints_to_reject < range <= $uty::MAX`.
///
/// An alternative to using a modulus is widening multiply: After a widening
/// multiply by `range`, the result is in the high word. Then comparing the low
/// word against `zone` makes sure our distribution is uniform.
///
/// # Bias
///
/// Unless the `unbiased` feature flag is used, outputs may have a small bias.
/// In the worst case, bias affects 1 in `2^n` samples where n is
/// 56 (`i8` and `u8`), 48 (`i16` and `u16`), 96 (`i32` and `u32`), 64 (`i64`
/// and `u64`), 128 (`i128` and `u128`).
///
/// [`Uniform`]: super::Uniform
#[derive(Clone, Copy, Debug, PartialEq, Eq)]
#[cfg_attr(feature = "serde", derive(Serialize, Deserialize))]
pub struct UniformInt<X> {
    pub(super) low: X,
    pub(super) range: X,
    thresh: X, // effectively 2.pow(max(64, uty_bits)) % range
}

macro_rules! uniform_int_impl {
    ($ty:ty, $uty:ty, $sample_ty:ident) => {
        impl UniformInt<$ty> {
            /// Get the maximum possible value
            #[allow(unused)]
            #[inline]
            pub(crate) fn max(&self) -> $ty {
                self.range.wrapping_sub(1).wrapping_add(self.low)
            }
        }

        impl SampleUniform for $ty {
            type Sampler = UniformInt<$ty>;
        }

        impl UniformSampler for UniformInt<$ty> {
            // We play free and fast with unsigned vs signed here
            // (when $ty is signed), but that's fine, since the
            // contract of this macro is for $ty and $uty to be
            // "bit-equal", so casting between them is a no-op.

            type X = $ty;

            #[inline] // if the range is constant, this helps LLVM to do the
                      // calculations at compile-time.
            fn new<B1, B2>(low_b: B1, high_b: B2) -> Result<Self, Error>
            where
                B1: SampleBorrow<Self::X> + Sized,
                B2: SampleBorrow<Self::X> + Sized,
            {
                let low = *low_b.borrow();
                let high = *high_b.borrow();
                if !(low < high) {
                    return Err(Error::EmptyRange);
                }
                UniformSampler::new_inclusive(low, high - 1)
            }

            #[inline] // if the range is constant, this helps LLVM to do the
                      // calculations at compile-time.
            fn new_inclusive<B1, B2>(low_b: B1, high_b: B2) -> Result<Self, Error>
            where
                B1: SampleBorrow<Self::X> + Sized,
                B2: SampleBorrow<Self::X> + Sized,
            {
                let low = *low_b.borrow();
                let high = *high_b.borrow();
                if !(low <= high) {
                    return Err(Error::EmptyRange);
                }

                let range = high.wrapping_sub(low).wrapping_add(1) as $uty;
                let thresh = if range > 0 {
                    let range = $sample_ty::from(range);
                    (range.wrapping_neg() % range)
                } else {
                    0
                };

                Ok(UniformInt {
                    low,
                    range: range as $ty,           // type: $uty
                    thresh: thresh as $uty as $ty, // type: $sample_ty
                })
            }

            /// Sample from distribution, Lemire's method, unbiased
            #[inline]
            fn sample<R: Rng + ?Sized>(&self, rng: &mut R) -> Self::X {
                let range = self.range as $uty as $sample_ty;
                if range == 0 {
                    return rng.random();
                }

                let thresh = self.thresh as $uty as $sample_ty;
                // /verif environment model (cfg(kani) only): Lemire's rejection loop is cut after its
                // first iteration; generator outputs that would be rejected are excluded by assumption
                // (a rejected draw is simply followed by a fresh one in the real code).
                #[cfg(kani)]
                let hi = if range == <$sample_ty>::MAX {
                    // range = 2^w - 1 (e.g. Uniform::new(0u64, usize::MAX as u64)): the wide product is
                    //   x * (2^w - 1) = x * 2^w - x   =>   hi = x - 1, lo = 2^w - x   for x != 0,
                    // and thresh = 1, so exactly x = 0 is rejected.  The identity is discharged as an SMT lemma
                    // (lib/pmhv.py: lemma_wmul_allones, cvc5 + z3) on every run that relies on it; using it
                    // here avoids bit-blasting a 128-bit multiplier for every draw.
                    let x = rng.random::<$sample_ty>();
                    kani::assume(x != 0);
                    x - 1
                } else {
                    let (hi, lo) = rng.random::<$sample_ty>().wmul(range);
                    kani::assume(lo >= thresh);
                    hi
                };
                #[cfg(not(kani))]
                let hi = loop {
                    let (hi, lo) = rng.random::<$sample_ty>().wmul(range);
                    if lo >= thresh {
                        break hi;
                    }
                };
                self.low.wrapping_add(hi as $ty)
            }

            #[inline]
            fn sample_single<R: Rng + ?Sized, B1, B2>(
                low_b: B1,
                high_b: B2,
                rng: &mut R,
            ) -> Result<Self::X, Error>
            where
                B1: SampleBorrow<Self::X> + Sized,
                B2: SampleBorrow<Self::X> + Sized,
            {
                let low = *low_b.borrow();
                let high = *high_b.borrow();
                if !(low < high) {
                    return Err(Error::EmptyRange);
                }
                Self::sample_single_inclusive(low, high - 1, rng)
            }

            /// Sample single value, Canon's method, biased
            ///
            /// In the worst case, bias affects 1 in `2^n` samples where n is
            /// 56 (`i8`), 48 (`i16`), 96 (`i32`), 64 (`i64`), 128 (`i128`).
            #[cfg(not(feature = "unbiased"))]
            #[inline]
            fn sample_single_inclusive<R: Rng + ?Sized, B1, B2>(
                low_b: B1,
                high_b: B2,
                rng: &mut R,
            ) -> Result<Self::X, Error>
            where
                B1: SampleBorrow<Self::X> + Sized,
                B2: SampleBorrow<Self::X> + Sized,
            {
                let low = *low_b.borrow();
                let high = *high_b.borrow();
                if !(low <= high) {
                    return Err(Error::EmptyRange);
                }
                let range = high.wrapping_sub(low).wrapping_add(1) as $uty as $sample_ty;
                if range == 0 {
                    // Range is MAX+1 (unrepresentable), so we need a special case
                    return Ok(rng.random());
                }

                // generate a sample using a sensible integer type
                let (mut result, lo_order) = rng.random::<$sample_ty>().wmul(range);

                // if the sample is biased...
                if lo_order > range.wrapping_neg() {
                    // ...generate a new sample to reduce bias...
                    let (new_hi_order, _) = (rng.random::<$sample_ty>()).wmul(range as $sample_ty);
                    // ... incrementing result on overflow
                    let is_overflow = lo_order.checked_add(new_hi_order as $sample_ty).is_none();
                    result += is_overflow as $sample_ty;
                }

                Ok(low.wrapping_add(result as $ty))
            }

            /// Sample single value, Canon's method, unbiased
            #[cfg(feature = "unbiased")]
            #[inline]
            fn sample_single_inclusive<R: Rng + ?Sized, B1, B2>(
                low_b: B1,
                high_b: B2,
                rng: &mut R,
            ) -> Result<Self::X, Error>
            where
                B1: SampleBorrow<$ty> + Sized,
                B2: SampleBorrow<$ty> + Sized,
            {
                let low = *low_b.borrow();
                let high = *high_b.borrow();
                if !(low <= high) {
                    return Err(Error::EmptyRange);
                }
                let range = high.wrapping_sub(low).wrapping_add(1) as $uty as $sample_ty;
                if range == 0 {
                    // Range is MAX+1 (unrepresentable), so we need a special case
                    return Ok(rng.random());
                }

                let (mut result, mut lo) = rng.random::<$sample_ty>().wmul(range);

                // In contrast to the biased sampler, we use a loop:
                while lo > range.wrapping_neg() {
                    let (new_hi, new_lo) = (rng.random::<$sample_ty>()).wmul(range);
                    match lo.checked_add(new_hi) {
                        Some(x) if x < $sample_ty::MAX => {
                            // Anything less than MAX: last term is 0
                            break;
                        }
                        None => {
                            // Overflow: last term is 1
                            result += 1;
                            break;
                        }
                        _ => {
                            // Unlikely case: must check next sample
                            lo = new_lo;
                            continue;
                        }
                    }
                }

                Ok(low.wrapping_add(result as $ty))
            }
        }
    };
}

uniform_int_impl! { i8, u8, u32 }
uniform_int_impl! { i16, u16, u32 }
uniform_int_impl! { i32, u32, u32 }
uniform_int_impl! { i64, u64, u64 }
uniform_int_impl! { i128, u128, u128 }
uniform_int_impl! { u8, u8, u32 }
uniform_int_impl! { u16, u16, u32 }
uniform_int_impl! { u32, u32, u32 }
uniform_int_impl! { u64, u64, u64 }
uniform_int_impl! { u128, u128, u128 }

#[cfg(feature = "simd_support")]
macro_rules! uniform_simd_int_impl {
    ($ty:ident, $unsigned:ident) => {
        // The "pick the largest zone that can fit in an `u32`" optimization
        // is less useful here. Multiple lanes complicate things, we don't
        // know the PRNG's minimal output size, and casting to a larger vector
        // is generally a bad idea for SIMD performance. The user can still
        // implement it manually.

        #[cfg(feature = "simd_support")]
        impl<const LANES: usize> SampleUniform for Simd<$ty, LANES>
        where
            LaneCount<LANES>: SupportedLaneCount,
            Simd<$unsigned, LANES>:
                WideningMultiply<Output = (Simd<$unsigned, LANES>, Simd<$unsigned, LANES>)>,
            StandardUniform: Distribution<Simd<$unsigned, LANES>>,
        {
            type Sampler = UniformInt<Simd<$ty, LANES>>;
        }

        #[cfg(feature = "simd_support")]
        impl<const LANES: usize> UniformSampler for UniformInt<Simd<$ty, LANES>>
        where
            LaneCount<LANES>: SupportedLaneCount,
            Simd<$unsigned, LANES>:
                WideningMultiply<Output = (Simd<$unsigned, LANES>, Simd<$unsigned, LANES>)>,
            StandardUniform: Distribution<Simd<$unsigned, LANES>>,
        {
            type X = Simd<$ty, LANES>;

            #[inline] // if the range is constant, this helps LLVM to do the
                      // calculations at compile-time.
            fn new<B1, B2>(low_b: B1, high_b: B2) -> Result<Self, Error>
                where B1: SampleBorrow<Self::X> + Sized,
                      B2: SampleBorrow<Self::X> + Sized
            {
                let low = *low_b.borrow();
                let high = *high_b.borrow();
                if !(low.simd_lt(high).all()) {
                    return Err(Error::EmptyRange);
                }
                UniformSampler::new_inclusive(low, high - Simd::splat(1))
            }

            #[inline] // if the range is constant, this helps LLVM to do the
                      // calculations at compile-time.
            fn new_inclusive<B1, B2>(low_b: B1, high_b: B2) -> Result<Self, Error>
                where B1: SampleBorrow<Self::X> + Sized,
                      B2: SampleBorrow<Self::X> + Sized
            {
                let low = *low_b.borrow();
                let high = *high_b.borrow();
                if !(low.simd_le(high).all()) {
                    return Err(Error::EmptyRange);
                }

                // NOTE: all `Simd` operations are inherently wrapping,
                //       see https://doc.rust-lang.org/std/simd/struct.Simd.html
                let range: Simd<$unsigned, LANES> = ((high - low) + Simd::splat(1)).cast();

                // We must avoid divide-by-zero by using 0 % 1 == 0.
                let not_full_range = range.simd_gt(Simd::splat(0));
                let modulo = not_full_range.select(range, Simd::splat(1));
                let ints_to_reject = range.wrapping_neg() % modulo;

                Ok(UniformInt {
                    low,
                    // These are really $unsigned values, but store as $ty:
                    range: range.cast(),
                    thresh: ints_to_reject.cast(),
                })
            }

            fn sample<R: Rng + ?Sized>(&self, rng: &mut R) -> Self::X {
                let range: Simd<$unsigned, LANES> = self.range.cast();
                let thresh: Simd<$unsigned, LANES> = self.thresh.cast();

                // This might seem very slow, generating a whole new
                // SIMD vector for every sample rejection. For most uses
                // though, the chance of rejection is small and provides good
                // general performance. With multiple lanes, that chance is
                // multiplied. To mitigate this, we replace only the lanes of
                // the vector which fail, iteratively reducing the chance of
                // rejection. The replacement method does however add a little
                // overhead. Benchmarking or calculating probabilities might
                // reveal contexts where this replacement method is slower.
                let mut v: Simd<$unsigned, LANES> = rng.random();
                loop {
                    let (hi, lo) = v.wmul(range);
                    let mask = lo.simd_ge(thresh);
                    if mask.all() {
                        let hi: Simd<$ty, LANES> = hi.cast();
                        // wrapping addition
                        let result = self.low + hi;
                        // `select` here compiles to a blend operation
                        // When `range.eq(0).none()` the compare and blend
                        // operations are avoided.
                        let v: Simd<$ty, LANES> = v.cast();
                        return range.simd_gt(Simd::splat(0)).select(result, v);
                    }
                    // Replace only the failing lanes
                    v = mask.select(v, rng.random());
                }
            }
        }
    };

    // bulk implementation
    ($(($unsigned:ident, $signed:ident)),+) => {
        $(
            uniform_simd_int_impl!($unsigned, $unsigned);
            uniform_simd_int_impl!($signed, $unsigned);
        )+
    };
}

#[cfg(feature = "simd_support")]
uniform_simd_int_impl! { (u8, i8), (u16, i16), (u32, i32), (u64, i64) }

/// The back-end implementing [`UniformSampler`] for `usize`.
///
/// # Implementation notes
///
/// Sampling a `usize` value is usually used in relation to the length of an
/// array or other memory structure, thus it is reasonable to assume that the
/// vast majority of use-cases will have a maximum size under [`u32::MAX`].
/// In part to optimise for this use-case, but mostly to ensure that results
/// are portable across 32-bit and 64-bit architectures (as far as is possible),
/// this implementation will use 32-bit sampling when possible.
#[cfg(any(target_pointer_width = "32", target_pointer_width = "64"))]
#[derive(Clone, Copy, Debug, PartialEq, Eq)]
#[cfg_attr(all(feature = "serde"), derive(Serialize))]
// To be able to deserialize on 32-bit we need to replace this with a custom
// implementation of the Deserialize trait, to be able to:
// - panic when `mode64` is `true` on 32-bit,
// - assign the default value to `mode64` when it's missing on 64-bit,
// - panic when the `usize` fields are greater than `u32::MAX` on 32-bit.
#[cfg_attr(
    all(feature = "serde", target_pointer_width = "64"),
    derive(Deserialize)
)]
pub struct UniformUsize {
    /// The lowest possible value.
    low: usize,
    /// The number of possible values. `0` has a special meaning: all.
    range: usize,
    /// Threshold used when sampling to obtain a uniform distribution.
    thresh: usize,
    /// Whether the largest possible value is greater than `u32::MAX`.
    #[cfg(target_pointer_width = "64")]
    // Handle missing field when deserializing on 64-bit an object serialized
    // on 32-bit. Can be removed when switching to a custom deserializer.
    #[cfg_attr(feature = "serde", serde(default))]
    mode64: bool,
}

#[cfg(any(target_pointer_width = "32", target_pointer_width = "64"))]
impl SampleUniform for usize {
    type Sampler = UniformUsize;
}

#[cfg(any(target_pointer_width = "32", target_pointer_width = "64"))]
impl UniformSampler for UniformUsize {
    type X = usize;

    #[inline] // if the range is constant, this helps LLVM to do the
              // calculations at compile-time.
    fn new<B1, B2>(low_b: B1, high_b: B2) -> Result<Self, Error>
    where
        B1: SampleBorrow<Self::X> + Sized,
        B2: SampleBorrow<Self::X> + Sized,
    {
        let low = *low_b.borrow();
        let high = *high_b.borrow();
        if !(low < high) {
            return Err(Error::EmptyRange);
        }

        UniformSampler::new_inclusive(low, high - 1)
    }

    #[inline] // if the range is constant, this helps LLVM to do the
              // calculations at compile-time.
    fn new_inclusive<B1, B2>(low_b: B1, high_b: B2) -> Result<Self, Error>
    where
        B1: SampleBorrow<Self::X> + Sized,
        B2: SampleBorrow<Self::X> + Sized,
    {
        let low = *low_b.borrow();
        let high = *high_b.borrow();
        if !(low <= high) {
            return Err(Error::EmptyRange);
        }

        #[cfg(target_pointer_width = "64")]
        let mode64 = high > (u32::MAX as usize);
        #[cfg(target_pointer_width = "32")]
        let mode64 = false;

        let (range, thresh);
        if cfg!(target_pointer_width = "64") && !mode64 {
            let range32 = (high as u32).wrapping_sub(low as u32).wrapping_add(1);
            range = range32 as usize;
            thresh = if range32 > 0 {
                (range32.wrapping_neg() % range32) as usize
            } else {
                0
            };
        } else {
            range = high.wrapping_sub(low).wrapping_add(1);
            thresh = if range > 0 {
                range.wrapping_neg() % range
            } else {
                0
            };
        }

        Ok(UniformUsize {
            low,
            range,
            thresh,
            #[cfg(target_pointer_width = "64")]
            mode64,
        })
    }

    #[inline]
    fn sample<R: Rng + ?Sized>(&self, rng: &mut R) -> usize {
        #[cfg(target_pointer_width = "32")]
        let mode32 = true;
        #[cfg(target_pointer_width = "64")]
        let mode32 = !self.mode64;

        if mode32 {
            let range = self.range as u32;
            if range == 0 {
                return rng.random::<u32>() as usize;
            }

            let thresh = self.thresh as u32;
            #[cfg(kani)]
            let hi = {
                // /verif environment model: see UniformInt::sample above
                let (hi, lo) = rng.random::<u32>().wmul(range);
                kani::assume(lo >= thresh);
                hi
            };
            #[cfg(not(kani))]
            let hi = loop {
                let (hi, lo) = rng.random::<u32>().wmul(range);
                if lo >= thresh {
                    break hi;
                }
            };
            self.low.wrapping_add(hi as usize)
        } else {
            let range = self.range as u64;
            if range == 0 {
                return rng.random::<u64>() as usize;
            }

            let thresh = self.thresh as u64;
            #[cfg(kani)]
            let hi = {
                // /verif environment model: see UniformInt::sample above
                let (hi, lo) = rng.random::<u64>().wmul(range);
                kani::assume(lo >= thresh);
                hi
            };
            #[cfg(not(kani))]
            let hi = loop {
                let (hi, lo) = rng.random::<u64>().wmul(range);
                if lo >= thresh {
                    break hi;
                }
            };
            self.low.wrapping_add(hi as usize)
        }
    }

    #[inline]
    fn sample_single<R: Rng + ?Sized, B1, B2>(
        low_b: B1,
        high_b: B2,
        rng: &mut R,
    ) -> Result<Self::X, Error>
    where
        B1: SampleBorrow<Self::X> + Sized,
        B2: SampleBorrow<Self::X> + Sized,
    {
        let low = *low_b.borrow();
        let high = *high_b.borrow();
        if !(low < high) {
            return Err(Error::EmptyRange);
        }

        if cfg!(target_pointer_width = "64") && high > (u32::MAX as usize) {
            return UniformInt::<u64>::sample_single(low as u64, high as u64, rng)
                .map(|x| x as usize);
        }

        UniformInt::<u32>::sample_single(low as u32, high as u32, rng).map(|x| x as usize)
    }

    #[inline]
    fn sample_single_inclusive<R: Rng + ?Sized, B1, B2>(
        low_b: B1,
        high_b: B2,
        rng: &mut R,
    ) -> Result<Self::X, Error>
    where
        B1: SampleBorrow<Self::X> + Sized,
        B2: SampleBorrow<Self::X> + Sized,
    {
        let low = *low_b.borrow();
        let high = *high_b.borrow();
        if !(low <= high) {
            return Err(Error::EmptyRange);
        }

        if cfg!(target_pointer_width = "64") && high > (u32::MAX as usize) {
            return UniformInt::<u64>::sample_single_inclusive(low as u64, high as u64, rng)
                .map(|x| x as usize);
        }

        UniformInt::<u32>::sample_single_inclusive(low as u32, high as u32, rng).map(|x| x as usize)
    }
}

#[cfg(test)]
mod tests {
    use super::*;
    use crate::distr::{Distribution, Uniform};
    use core::fmt::Debug;
    use core::ops::Add;

    #[test]
    fn test_uniform_bad_limits_equal_int() {
        assert_eq!(Uniform::new(10, 10), Err(Error::EmptyRange));
    }

    #[test]
    fn test_uniform_good_limits_equal_int() {
        let mut rng = crate::test::rng(804);
        let dist = Uniform::new_inclusive(10, 10).unwrap();
        for _ in 0..20 {
            assert_eq!(rng.sample(dist), 10);
        }
    }

    #[test]
    fn test_uniform_bad_limits_flipped_int() {
        assert_eq!(Uniform::new(10, 5), Err(Error::EmptyRange));
    }

    #[test]
    #[cfg_attr(miri, ignore)] // Miri is too slow
    fn test_integers() {
        let mut rng = crate::test::rng(251);
        macro_rules! t {
            ($ty:ident, $v:expr, $le:expr, $lt:expr) => {{
                for &(low, high) in $v.iter() {
                    let my_uniform = Uniform::new(low, high).unwrap();
                    for _ in 0..1000 {
                        let v: $ty = rng.sample(my_uniform);
                        assert!($le(low, v) && $lt(v, high));
                    }

                    let my_uniform = Uniform::new_inclusive(low, high).unwrap();
                    for _ in 0..1000 {
                        let v: $ty = rng.sample(my_uniform);
                        assert!($le(low, v) && $le(v, high));
                    }

                    let my_uniform = Uniform::new(&low, high).unwrap();
                    for _ in 0..1000 {
                        let v: $ty = rng.sample(my_uniform);
                        assert!($le(low, v) && $lt(v, high));
                    }

                    let my_uniform = Uniform::new_inclusive(&low, &high).unwrap();
                    for _ in 0..1000 {
                        let v: $ty = rng.sample(my_uniform);
                        assert!($le(low, v) && $le(v, high));
                    }

                    for _ in 0..1000 {
                        let v = <$ty as SampleUniform>::Sampler::sample_single(low, high, &mut rng).unwrap();
                        assert!($le(low, v) && $lt(v, high));
                    }

                    for _ in 0..1000 {
                        let v = <$ty as SampleUniform>::Sampler::sample_single_inclusive(low, high, &mut rng).unwrap();
                        assert!($le(low, v) && $le(v, high));
                    }
                }
            }};

            // scalar bulk
            ($($ty:ident),*) => {{
                $(t!(
                    $ty,
                    [(0, 10), (10, 127), ($ty::MIN, $ty::MAX)],
                    |x, y| x <= y,
                    |x, y| x < y
                );)*
            }};

            // simd bulk
            ($($ty:ident),* => $scalar:ident) => {{
                $(t!(
                    $ty,
                    [
                        ($ty::splat(0), $ty::splat(10)),
                        ($ty::splat(10), $ty::splat(127)),
                        ($ty::splat($scalar::MIN), $ty::splat($scalar::MAX)),
                    ],
                    |x: $ty, y| x.simd_le(y).all(),
                    |x: $ty, y| x.simd_lt(y).all()
                );)*
            }};
        }
        t!(i8, i16, i32, i64, i128, u8, u16, u32, u64, usize, u128);

        #[cfg(feature = "simd_support")]
        {
            t!(u8x4, u8x8, u8x16, u8x32, u8x64 => u8);
            t!(i8x4, i8x8, i8x16, i8x32, i8x64 => i8);
            t!(u16x2, u16x4, u16x8, u16x16, u16x32 => u16);
            t!(i16x2, i16x4, i16x8, i16x16, i16x32 => i16);
            t!(u32x2, u32x4, u32x8, u32x16 => u32);
            t!(i32x2, i32x4, i32x8, i32x16 => i32);
            t!(u64x2, u64x4, u64x8 => u64);
            t!(i64x2, i64x4, i64x8 => i64);
        }
    }

    #[test]
    fn test_uniform_from_std_range() {
        let r = Uniform::try_from(2u32..7).unwrap();
        assert_eq!(r.0.low, 2);
        assert_eq!(r.0.range, 5);
        assert_eq!(r.0.max(), 6);
    }

    #[test]
    fn test_uniform_from_std_range_bad_limits() {
        #![allow(clippy::reversed_empty_ranges)]
        assert!(Uniform::try_from(100..10).is_err());
        assert!(Uniform::try_from(100..100).is_err());
    }

    #[test]
    fn test_uniform_from_std_range_inclusive() {
        let r = Uniform::try_from(2u32..=6).unwrap();
        assert_eq!(r.0.low, 2);
        assert_eq!(r.0.range, 5);
        assert_eq!(r.0.max(), 6);
    }

    #[test]
    fn test_uniform_from_std_range_inclusive_bad_limits() {
        #![allow(clippy::reversed_empty_ranges)]
        assert!(Uniform::try_from(100..=10).is_err());
        assert!(Uniform::try_from(100..=99).is_err());
    }

    #[test]
    fn value_stability() {
        fn test_samples<T: SampleUniform + Copy + Debug + PartialEq + Add<T>>(
            lb: T,
            ub: T,
            ub_excl: T,
            expected: &[T],
        ) where
            Uniform<T>: Distribution<T>,
        {
            let mut rng = crate::test::rng(897);
            let mut buf = [lb; 6];

            for x in &mut buf[0..3] {
                *x = T::Sampler::sample_single_inclusive(lb, ub, &mut rng).unwrap();
            }

            let distr = Uniform::new_inclusive(lb, ub).unwrap();
            for x in &mut buf[3..6] {
                *x = rng.sample(&distr);
            }
            assert_eq!(&buf, expected);

            let mut rng = crate::test::rng(897);

            for x in &mut buf[0..3] {
                *x = T::Sampler::sample_single(lb, ub_excl, &mut rng).unwrap();
            }

            let distr = Uniform::new(lb, ub_excl).unwrap();
            for x in &mut buf[3..6] {
                *x = rng.sample(&distr);
            }
            assert_eq!(&buf, expected);
        }

        test_samples(-105i8, 111, 112, &[-99, -48, 107, 72, -19, 56]);
        test_samples(2i16, 1352, 1353, &[43, 361, 1325, 1109, 539, 1005]);
        test_samples(
            -313853i32,
            13513,
            13514,
            &[-303803, -226673, 6912, -45605, -183505, -70668],
        );
        test_samples(
            131521i64,
            6542165,
            6542166,
            &[1838724, 5384489, 4893692, 3712948, 3951509, 4094926],
        );
        test_samples(
            -0x8000_0000_0000_0000_0000_0000_0000_0000i128,
            -1,
            0,
            &[
                -30725222750250982319765550926688025855,
                -75088619368053423329503924805178012357,
                -64950748766625548510467638647674468829,
                -41794017901603587121582892414659436495,
                -63623852319608406524605295913876414006,
                -17404679390297612013597359206379189023,
            ],
        );
        test_samples(11u8, 218, 219, &[17, 66, 214, 181, 93, 165]);
        test_samples(11u16, 218, 219, &[17, 66, 214, 181, 93, 165]);
        test_samples(11u32, 218, 219, &[17, 66, 214, 181, 93, 165]);
        test_samples(11u64, 218, 219, &[66, 181, 165, 127, 134, 139]);
        test_samples(11u128, 218, 219, &[181, 127, 139, 167, 141, 197]);
        test_samples(11usize, 218, 219, &[17, 66, 214, 181, 93, 165]);

        #[cfg(feature = "simd_support")]
        {
            let lb = Simd::from([11u8, 0, 128, 127]);
            let ub = Simd::from([218, 254, 254, 254]);
            let ub_excl = ub + Simd::splat(1);
            test_samples(
                lb,
                ub,
                ub_excl,
                &[
                    Simd::from([13, 5, 237, 130]),
                    Simd::from([126, 186, 149, 161]),
                    Simd::from([103, 86, 234, 252]),
                    Simd::from([35, 18, 225, 231]),
                    Simd::from([106, 153, 246, 177]),
                    Simd::from([195, 168, 149, 222]),
                ],
            );
        }
    }

    #[test]
    fn test_uniform_usize_empty_range() {
        assert_eq!(UniformUsize::new(10, 10), Err(Error::EmptyRange));
        assert!(UniformUsize::new(10, 11).is_ok());

        assert_eq!(UniformUsize::new_inclusive(10, 9), Err(Error::EmptyRange));
        assert!(UniformUsize::new_inclusive(10, 10).is_ok());
    }

    #[test]
    fn test_uniform_usize_constructors() {
        assert_eq!(
            UniformUsize::new_inclusive(u32::MAX as usize, u32::MAX as usize),
            Ok(UniformUsize {
                low: u32::MAX as usize,
                range: 1,
                thresh: 0,
                #[cfg(target_pointer_width = "64")]
                mode64: false
            })
        );
        assert_eq!(
            UniformUsize::new_inclusive(0, u32::MAX as usize),
            Ok(UniformUsize {
                low: 0,
                range: 0,
                thresh: 0,
                #[cfg(target_pointer_width = "64")]
                mode64: false
            })
        );
        #[cfg(target_pointer_width = "64")]
        assert_eq!(
            UniformUsize::new_inclusive(0, u32::MAX as usize + 1),
            Ok(UniformUsize {
                low: 0,
                range: u32::MAX as usize + 2,
                thresh: 1,
                mode64: true
            })
        );
        #[cfg(target_pointer_width = "64")]
        assert_eq!(
            UniformUsize::new_inclusive(u32::MAX as usize, u64::MAX as usize),
            Ok(UniformUsize {
                low: u32::MAX as usize,
                range: u64::MAX as usize - u32::MAX as usize + 1,
                thresh: u32::MAX as usize,
                mode64: true
            })
        );
    }

    // This could be run also on 32-bit when deserialization is implemented.
    #[cfg(all(feature = "serde", target_pointer_width = "64"))]
    #[test]
    fn test_uniform_usize_deserialization() {
        use serde_json;
        let original = UniformUsize::new_inclusive(10, 100).expect("creation");
        let serialized = serde_json::to_string(&original).expect("serialization");
        let deserialized: UniformUsize =
            serde_json::from_str(&serialized).expect("deserialization");
        assert_eq!(deserialized, original);
    }

    #[cfg(all(feature = "serde", target_pointer_width = "64"))]
    #[test]
    fn test_uniform_usize_deserialization_from_32bit() {
        use serde_json;
        let serialized_on_32bit = r#"{"low":10,"range":91,"thresh":74}"#;
        let deserialized: UniformUsize =
            serde_json::from_str(&serialized_on_32bit).expect("deserialization");
        assert_eq!(
            deserialized,
            UniformUsize::new_inclusive(10, 100).expect("creation")
        );
    }

    #[cfg(all(feature = "serde", target_pointer_width = "64"))]
    #[test]
    fn test_uniform_usize_deserialization_64bit() {
        use serde_json;
        let original = UniformUsize::new_inclusive(1, u64::MAX as usize - 1).expect("creation");
        assert!(original.mode64);
        let serialized = serde_json::to_string(&original).expect("serialization");
        let deserialized: UniformUsize =
            serde_json::from_str(&serialized).expect("deserialization");
        assert_eq!(deserialized, original);
    }
}
