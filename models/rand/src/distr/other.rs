// Copyright 2018 Developers of the Rand project.
//
// Licensed under the Apache License, Version 2.0 <LICENSE-APACHE or
// https://www.apache.org/licenses/LICENSE-2.0> or the MIT license
// <LICENSE-MIT or https://opensource.org/licenses/MIT>, at your
// option. This file may not be copied, modified, or distributed
// except according to those terms.

//! The implementations of the `StandardUniform` distribution for other built-in types.

#[cfg(feature = "alloc")]
use alloc::string::String;
use core::array;
use core::char;
use core::num::Wrapping;

#[cfg(feature = "alloc")]
use crate::distr::SampleString;
use crate::distr::{Distribution, StandardUniform, Uniform};
use crate::Rng;

#[cfg(feature = "simd_support")]
use core::simd::prelude::*;
#[cfg(feature = "simd_support")]
use core::simd::{LaneCount, MaskElement, SupportedLaneCount};
#[cfg(feature = "serde")]
use serde::{Deserialize, Serialize};

// ----- Sampling distributions -----

/// Sample a `u8`, uniformly distributed over ASCII letters and numbers:
/// a-z, A-Z and 0-9.
///
/// # Example
///
/// ```
/// use rand::Rng;
/// use rand::distr::Alphanumeric;
///
/// let mut rng = rand::rng();
/// let chars: String = (0..7).map(|_| rng.sample(Alphanumeric) as char).collect();
/// println!("Random chars: {}", chars);
/// ```
///
/// The [`SampleString`] trait provides an easier method of generating
/// a random [`String`], and offers more efficient allocation:
/// ```
/// use rand::distr::{Alphanumeric, SampleString};
/// let string = Alphanumeric.sample_string(&mut rand::rng(), 16);
/// println!("Random string: {}", string);
/// ```
///
/// # Passwords
///
/// Users sometimes ask whether it is safe to use a string of random characters
/// as a password. In principle, all RNGs in Rand implementing `CryptoRng` are
/// suitable as a source of randomness for generating passwords (if they are
/// properly seeded), but it is more conservative to only use randomness
/// directly from the operating system via the `getrandom` crate, or the
/// corresponding bindings of a crypto library.
///
/// When generating passwords or keys, it is important to consider the threat
/// model and in some cases the memorability of the password. This is out of
/// scope of the Rand project, and therefore we defer to the following
/// references:
///
/// - [Wikipedia article on Password Strength](https://en.wikipedia.org/wiki/Password_strength)
/// - [Diceware for generating memorable passwords](https://en.wikipedia.org/wiki/Diceware)
#[derive(Debug, Clone, Copy, Default)]
#[cfg_attr(feature = "serde", derive(Serialize, Deserialize))]
pub struct Alphanumeric;

/// Sample a [`u8`], uniformly distributed over letters:
/// a-z and A-Z.
///
/// # Example
///
/// You're able to generate random Alphabetic characters via mapping or via the
/// [`SampleString::sample_string`] method like so:
///
/// ```
/// use rand::Rng;
/// use rand::distr::{Alphabetic, SampleString};
///
/// // Manual mapping
/// let mut rng = rand::rng();
/// let chars: String = (0..7).map(|_| rng.sample(Alphabetic) as char).collect();
/// println!("Random chars: {}", chars);
///
/// // Using [`SampleString::sample_string`]
/// let string = Alphabetic.sample_string(&mut rand::rng(), 16);
/// println!("Random string: {}", string);
/// ```
///
/// # Passwords
///
/// Refer to [`Alphanumeric#Passwords`].
#[derive(Debug, Clone, Copy, Default)]
#[cfg_attr(feature = "serde", derive(Serialize, Deserialize))]
pub struct Alphabetic;

// ----- Implementations of distributions -----

impl Distribution<char> for StandardUniform {
    #[inline]
    fn sample<R: Rng + ?Sized>(&self, rng: &mut R) -> char {
        // A valid `char` is either in the interval `[0, 0xD800)` or
        // `(0xDFFF, 0x11_0000)`. All `char`s must therefore be in
        // `[0, 0x11_0000)` but not in the "gap" `[0xD800, 0xDFFF]` which is
        // reserved for surrogates. This is the size of that gap.
        const GAP_SIZE: u32 = 0xDFFF - 0xD800 + 1;

        // Uniform::new(0, 0x11_0000 - GAP_SIZE) can also be used, but it
        // seemed slower.
        let range = Uniform::new(GAP_SIZE, 0x11_0000).unwrap();

        let mut n = range.sample(rng);
        if n <= 0xDFFF {
            n -= GAP_SIZE;
        }
        // SAFETY: We ensure above that `n` represents a `char`.
        unsafe { char::from_u32_unchecked(n) }
    }
}

#[cfg(feature = "alloc")]
impl SampleString for StandardUniform {
    fn append_string<R: Rng + ?Sized>(&self, rng: &mut R, s: &mut String, len: usize) {
        // A char is encoded with at most four bytes, thus this reservation is
        // guaranteed to be sufficient. We do not shrink_to_fit afterwards so
        // that repeated usage on the same `String` buffer does not reallocate.
        s.reserve(4 * len);
        s.extend(Distribution::<char>::sample_iter(self, rng).take(len));
    }
}

impl Distribution<u8> for Alphanumeric {
    fn sample<R: Rng + ?Sized>(&self, rng: &mut R) -> u8 {
        const RANGE: u32 = 26 + 26 + 10;
        const GEN_ASCII_STR_CHARSET: &[u8] = b"ABCDEFGHIJKLMNOPQRSTUVWXYZ\
                abcdefghijklmnopqrstuvwxyz\
                0123456789";
        // We can pick from 62 characters. This is so close to a power of 2, 64,
        // that we can do better than `Uniform`. Use a simple bitshift and
        // rejection sampling. We do not use a bitmask, because for small RNGs
        // the most significant bits are usually of higher quality.
        loop {
            let var = rng.next_u32() >> (32 - 6);
            if var < RANGE {
                return GEN_ASCII_STR_CHARSET[var as usize];
            }
        }
    }
}

impl Distribution<u8> for Alphabetic {
    fn sample<R: Rng + ?Sized>(&self, rng: &mut R) -> u8 {
        const RANGE: u8 = 26 + 26;

        let offset = rng.random_range(0..RANGE) + b'A';

        // Account for upper-cases
        offset + (offset > b'Z') as u8 * (b'a' - b'Z' - 1)
    }
}

#[cfg(feature = "alloc")]
impl SampleString for Alphanumeric {
    fn append_string<R: Rng + ?Sized>(&self, rng: &mut R, string: &mut String, len: usize) {
        // SAFETY: `self` only samples alphanumeric characters, which are valid UTF-8.
        unsafe {
            let v = string.as_mut_vec();
            v.extend(
                self.sample_iter(rng)
                    .take(len)
                    .inspect(|b| debug_assert!(b.is_ascii_alphanumeric())),
            );
        }
    }
}

#[cfg(feature = "alloc")]
impl SampleString for Alphabetic {
    fn append_string<R: Rng + ?Sized>(&self, rng: &mut R, string: &mut String, len: usize) {
        // SAFETY: With this distribution we guarantee that we're working with valid ASCII
        // characters.
        // See [#1590](https://github.com/rust-random/rand/issues/1590).
        unsafe {
            let v = string.as_mut_vec();
            v.reserve_exact(len);
            v.extend(self.sample_iter(rng).take(len));
        }
    }
}

impl Distribution<bool> for StandardUniform {
    #[inline]
    fn sample<R: Rng + ?Sized>(&self, rng: &mut R) -> bool {
        // We can compare against an arbitrary bit of an u32 to get a bool.
        // Because the least significant bits of a lower quality RNG can have
        // simple patterns, we compare against the most significant bit. This is
        // easiest done using a sign test.
        (rng.next_u32() as i32) < 0
    }
}

/// Note that on some hardware like x86/64 mask operations like [`_mm_blendv_epi8`]
/// only care about a single bit. This means that you could use uniform random bits
/// directly:
///
/// ```ignore
/// // this may be faster...
/// let x = unsafe { _mm_blendv_epi8(a.into(), b.into(), rng.random::<__m128i>()) };
///
/// // ...than this
/// let x = rng.random::<mask8x16>().select(b, a);
/// ```
///
/// Since most bits are unused you could also generate only as many bits as you need, i.e.:
/// ```
/// #![feature(portable_simd)]
/// use std::simd::prelude::*;
/// use rand::prelude::*;
/// let mut rng = rand::rng();
///
/// let x = u16x8::splat(rng.random::<u8>() as u16);
/// let mask = u16x8::splat(1) << u16x8::from([0, 1, 2, 3, 4, 5, 6, 7]);
/// let rand_mask = (x & mask).simd_eq(mask);
/// ```
///
/// [`_mm_blendv_epi8`]: https://www.intel.com/content/www/us/en/docs/intrinsics-guide/index.html#text=_mm_blendv_epi8&ig_expand=514/
/// [`simd_support`]: https://github.com/rust-random/rand#crate-features
#[cfg(feature = "simd_support")]
impl<T, const LANES: usize> Distribution<Mask<T, LANES>> for StandardUniform
where
    T: MaskElement + Default,
    LaneCount<LANES>: SupportedLaneCount,
    StandardUniform: Distribution<Simd<T, LANES>>,
    Simd<T, LANES>: SimdPartialOrd<Mask = Mask<T, LANES>>,
{
    #[inline]
    fn sample<R: Rng + ?Sized>(&self, rng: &mut R) -> Mask<T, LANES> {
        // `MaskElement` must be a signed integer, so this is equivalent
        // to the scalar `i32 < 0` method
        let var = rng.random::<Simd<T, LANES>>();
        var.simd_lt(Simd::default())
    }
}

/// Implement `Distribution<(A, B, C, ...)> for StandardUniform`, using the list of
/// identifiers
macro_rules! tuple_impl {
    ($($tyvar:ident)*) => {
        impl< $($tyvar,)* > Distribution<($($tyvar,)*)> for StandardUniform
        where $(
            StandardUniform: Distribution< $tyvar >,
        )*
        {
            #[inline]
            fn sample<R: Rng + ?Sized>(&self, rng: &mut R) -> ( $($tyvar,)* ) {
                let out = ($(
                    // use the $tyvar's to get the appropriate number of
                    // repeats (they're not actually needed)
                    rng.random::<$tyvar>()
                ,)*);

                // Suppress the unused variable warning for empty tuple
                let _rng = rng;

                out
            }
        }
    }
}

/// Looping wrapper for `tuple_impl`. Given (A, B, C), it also generates
/// implementations for (A, B) and (A,)
macro_rules! tuple_impls {
    ($($tyvar:ident)*) => {tuple_impls!{[] $($tyvar)*}};

    ([$($prefix:ident)*] $head:ident $($tail:ident)*) => {
        tuple_impl!{$($prefix)*}
        tuple_impls!{[$($prefix)* $head] $($tail)*}
    };


    ([$($prefix:ident)*]) => {
        tuple_impl!{$($prefix)*}
    };

}

tuple_impls! {A B C D E F G H I J K L}

impl<T, const N: usize> Distribution<[T; N]> for StandardUniform
where
    StandardUniform: Distribution<T>,
{
    #[inline]
    fn sample<R: Rng + ?Sized>(&self, rng: &mut R) -> [T; N] {
        array::from_fn(|_| rng.random())
    }
}

impl<T> Distribution<Wrapping<T>> for StandardUniform
where
    StandardUniform: Distribution<T>,
{
    #[inline]
    fn sample<R: Rng + ?Sized>(&self, rng: &mut R) -> Wrapping<T> {
        Wrapping(rng.random())
    }
}

#[cfg(test)]
mod tests {
    use super::*;
    use crate::RngCore;

    #[test]
    fn test_misc() {
        let rng: &mut dyn RngCore = &mut crate::test::rng(820);

        rng.sample::<char, _>(StandardUniform);
        rng.sample::<bool, _>(StandardUniform);
    }

    #[cfg(feature = "alloc")]
    #[test]
    fn test_chars() {
        use core::iter;
        let mut rng = crate::test::rng(805);

        // Test by generating a relatively large number of chars, so we also
        // take the rejection sampling path.
        let word: String = iter::repeat(())
            .map(|()| rng.random::<char>())
            .take(1000)
            .collect();
        assert!(!word.is_empty());
    }

    #[test]
    fn test_alphanumeric() {
        let mut rng = crate::test::rng(806);

        // Test by generating a relatively large number of chars, so we also
        // take the rejection sampling path.
        let mut incorrect = false;
        for _ in 0..100 {
            let c: char = rng.sample(Alphanumeric).into();
            incorrect |= !c.is_ascii_alphanumeric();
        }
        assert!(!incorrect);
    }

    #[test]
    fn test_alphabetic() {
        let mut rng = crate::test::rng(806);

        // Test by generating a relatively large number of chars, so we also
        // take the rejection sampling path.
        let mut incorrect = false;
        for _ in 0..100 {
            let c: char = rng.sample(Alphabetic).into();
            incorrect |= !c.is_ascii_alphabetic();
        }
        assert!(!incorrect);
    }

    #[test]
    fn value_stability() {
        fn test_samples<T: Copy + core::fmt::Debug + PartialEq, D: Distribution<T>>(
            distr: &D,
            zero: T,
            expected: &[T],
        ) {
            let mut rng = crate::test::rng(807);
            let mut buf = [zero; 5];
            for x in &mut buf {
                *x = rng.sample(distr);
            }
            assert_eq!(&buf, expected);
        }

        test_samples(
            &StandardUniform,
            'a',
            &[
                '\u{8cdac}',
                '\u{a346a}',
                '\u{80120}',
                '\u{ed692}',
                '\u{35888}',
            ],
        );
        test_samples(&Alphanumeric, 0, &[104, 109, 101, 51, 77]);
        test_samples(&Alphabetic, 0, &[97, 102, 89, 116, 75]);
        test_samples(&StandardUniform, false, &[true, true, false, true, false]);
        test_samples(
            &StandardUniform,
            Wrapping(0i32),
            &[
                Wrapping(-2074640887),
                Wrapping(-1719949321),
                Wrapping(2018088303),
                Wrapping(-547181756),
                Wrapping(838957336),
            ],
        );

        // We test only sub-sets of tuple and array impls
        test_samples(&StandardUniform, (), &[(), (), (), (), ()]);
        test_samples(
            &StandardUniform,
            (false,),
            &[(true,), (true,), (false,), (true,), (false,)],
        );
        test_samples(
            &StandardUniform,
            (false, false),
            &[
                (true, true),
                (false, true),
                (false, false),
                (true, false),
                (false, false),
            ],
        );

        test_samples(&StandardUniform, [0u8; 0], &[[], [], [], [], []]);
        test_samples(
            &StandardUniform,
            [0u8; 3],
            &[
                [9, 247, 111],
                [68, 24, 13],
                [174, 19, 194],
                [172, 69, 213],
                [149, 207, 29],
            ],
        );
    }
}
