// Copyright 2018 Developers of the Rand project.
//
// Licensed under the Apache License, Version 2.0 <LICENSE-APACHE or
// https://www.apache.org/licenses/LICENSE-2.0> or the MIT license
// <LICENSE-MIT or https://opensource.org/licenses/MIT>, at your
// option. This file may not be copied, modified, or distributed
// except according to those terms.

//! Math helper functions

#[cfg(feature = "simd_support")]
use core::simd::prelude::*;
#[cfg(feature = "simd_support")]
use core::simd::{LaneCount, SimdElement, SupportedLaneCount};

pub(crate) trait WideningMultiply<RHS = Self> {
    type Output;

    fn wmul(self, x: RHS) -> Self::Output;
}

macro_rules! wmul_impl {
    ($ty:ty, $wide:ty, $shift:expr) => {
        impl WideningMultiply for $ty {
            type Output = ($ty, $ty);

            #[inline(always)]
            fn wmul(self, x: $ty) -> Self::Output {
                let tmp = (self as $wide) * (x as $wide);
                ((tmp >> $shift) as $ty, tmp as $ty)
            }
        }
    };

    // simd bulk implementation
    ($(($ty:ident, $wide:ty),)+, $shift:expr) => {
        $(
            impl WideningMultiply for $ty {
                type Output = ($ty, $ty);

                #[inline(always)]
                fn wmul(self, x: $ty) -> Self::Output {
                    // For supported vectors, this should compile to a couple
                    // supported multiply & swizzle instructions (no actual
                    // casting).
                    // TODO: optimize
                    let y: $wide = self.cast();
                    let x: $wide = x.cast();
                    let tmp = y * x;
                    let hi: $ty = (tmp >> Simd::splat($shift)).cast();
                    let lo: $ty = tmp.cast();
                    (hi, lo)
                }
            }
        )+
    };
}
wmul_impl! { u8, u16, 8 }
wmul_impl! { u16, u32, 16 }
wmul_impl! { u32, u64, 32 }
wmul_impl! { u64, u128, 64 }

// This code is a translation of the __mulddi3 function in LLVM's
// compiler-rt. It is an optimised variant of the common method
// `(a + b) * (c + d) = ac + ad + bc + bd`.
//
// For some reason LLVM can optimise the C version very well, but
// keeps shuffling registers in this Rust translation.
macro_rules! wmul_impl_large {
    ($ty:ty, $half:expr) => {
        impl WideningMultiply for $ty {
            type Output = ($ty, $ty);

            #[inline(always)]
            fn wmul(self, b: $ty) -> Self::Output {
                const LOWER_MASK: $ty = !0 >> $half;
                let mut low = (self & LOWER_MASK).wrapping_mul(b & LOWER_MASK);
                let mut t = low >> $half;
                low &= LOWER_MASK;
                t += (self >> $half).wrapping_mul(b & LOWER_MASK);
                low += (t & LOWER_MASK) << $half;
                let mut high = t >> $half;
                t = low >> $half;
                low &= LOWER_MASK;
                t += (b >> $half).wrapping_mul(self & LOWER_MASK);
                low += (t & LOWER_MASK) << $half;
                high += t >> $half;
                high += (self >> $half).wrapping_mul(b >> $half);

                (high, low)
            }
        }
    };

    // simd bulk implementation
    (($($ty:ty,)+) $scalar:ty, $half:expr) => {
        $(
            impl WideningMultiply for $ty {
                type Output = ($ty, $ty);

                #[inline(always)]
                fn wmul(self, b: $ty) -> Self::Output {
                    // needs wrapping multiplication
                    let lower_mask = <$ty>::splat(!0 >> $half);
                    let half = <$ty>::splat($half);
                    let mut low = (self & lower_mask) * (b & lower_mask);
                    let mut t = low >> half;
                    low &= lower_mask;
                    t += (self >> half) * (b & lower_mask);
                    low += (t & lower_mask) << half;
                    let mut high = t >> half;
                    t = low >> half;
                    low &= lower_mask;
                    t += (b >> half) * (self & lower_mask);
                    low += (t & lower_mask) << half;
                    high += t >> half;
                    high += (self >> half) * (b >> half);

                    (high, low)
                }
            }
        )+
    };
}
wmul_impl_large! { u128, 64 }

macro_rules! wmul_impl_usize {
    ($ty:ty) => {
        impl WideningMultiply for usize {
            type Output = (usize, usize);

            #[inline(always)]
            fn wmul(self, x: usize) -> Self::Output {
                let (high, low) = (self as $ty).wmul(x as $ty);
                (high as usize, low as usize)
            }
        }
    };
}
#[cfg(target_pointer_width = "16")]
wmul_impl_usize! { u16 }
#[cfg(target_pointer_width = "32")]
wmul_impl_usize! { u32 }
#[cfg(target_pointer_width = "64")]
wmul_impl_usize! { u64 }

#[cfg(feature = "simd_support")]
mod simd_wmul {
    use super::*;
    #[cfg(target_arch = "x86")]
    use core::arch::x86::*;
    #[cfg(target_arch = "x86_64")]
    use core::arch::x86_64::*;

    wmul_impl! {
        (u8x4, u16x4),
        (u8x8, u16x8),
        (u8x16, u16x16),
        (u8x32, u16x32),
        (u8x64, Simd<u16, 64>),,
        8
    }

    wmul_impl! { (u16x2, u32x2),, 16 }
    wmul_impl! { (u16x4, u32x4),, 16 }
    #[cfg(not(target_feature = "sse2"))]
    wmul_impl! { (u16x8, u32x8),, 16 }
    #[cfg(not(target_feature = "avx2"))]
    wmul_impl! { (u16x16, u32x16),, 16 }
    #[cfg(not(target_feature = "avx512bw"))]
    wmul_impl! { (u16x32, Simd<u32, 32>),, 16 }

    // 16-bit lane widths allow use of the x86 `mulhi` instructions, which
    // means `wmul` can be implemented with only two instructions.
    #[allow(unused_macros)]
    macro_rules! wmul_impl_16 {
        ($ty:ident, $mulhi:ident, $mullo:ident) => {
            impl WideningMultiply for $ty {
                type Output = ($ty, $ty);

                #[inline(always)]
                fn wmul(self, x: $ty) -> Self::Output {
                    let hi = unsafe { $mulhi(self.into(), x.into()) }.into();
                    let lo = unsafe { $mullo(self.into(), x.into()) }.into();
                    (hi, lo)
                }
            }
        };
    }

    #[cfg(target_feature = "sse2")]
    wmul_impl_16! { u16x8, _mm_mulhi_epu16, _mm_mullo_epi16 }
    #[cfg(target_feature = "avx2")]
    wmul_impl_16! { u16x16, _mm256_mulhi_epu16, _mm256_mullo_epi16 }
    #[cfg(target_feature = "avx512bw")]
    wmul_impl_16! { u16x32, _mm512_mulhi_epu16, _mm512_mullo_epi16 }

    wmul_impl! {
        (u32x2, u64x2),
        (u32x4, u64x4),
        (u32x8, u64x8),
        (u32x16, Simd<u64, 16>),,
        32
    }

    wmul_impl_large! { (u64x2, u64x4, u64x8,) u64, 32 }
}

/// Helper trait when dealing with scalar and SIMD floating point types.
pub(crate) trait FloatSIMDUtils {
    // `PartialOrd` for vectors compares lexicographically. We want to compare all
    // the individual SIMD lanes instead, and get the combined result over all
    // lanes. This is possible using something like `a.lt(b).all()`, but we
    // implement it as a trait so we can write the same code for `f32` and `f64`.
    // Only the comparison functions we need are implemented.
    fn all_lt(self, other: Self) -> bool;
    fn all_le(self, other: Self) -> bool;
    fn all_finite(self) -> bool;

    type Mask;
    fn gt_mask(self, other: Self) -> Self::Mask;

    // Decrease all lanes where the mask is `true` to the next lower value
    // representable by the floating-point type. At least one of the lanes
    // must be set.
    fn decrease_masked(self, mask: Self::Mask) -> Self;

    // Convert from int value. Conversion is done while retaining the numerical
    // value, not by retaining the binary representation.
    type UInt;
    fn cast_from_int(i: Self::UInt) -> Self;
}

#[cfg(test)]
pub(crate) trait FloatSIMDScalarUtils: FloatSIMDUtils {
    type Scalar;

    fn replace(self, index: usize, new_value: Self::Scalar) -> Self;
    fn extract_lane(self, index: usize) -> Self::Scalar;
}

/// Implement functions on f32/f64 to give them APIs similar to SIMD types
pub(crate) trait FloatAsSIMD: Sized {
    #[cfg(test)]
    const LEN: usize = 1;

    #[inline(always)]
    fn splat(scalar: Self) -> Self {
        scalar
    }
}

pub(crate) trait IntAsSIMD: Sized {
    #[inline(always)]
    fn splat(scalar: Self) -> Self {
        scalar
    }
}

impl IntAsSIMD for u32 {}
impl IntAsSIMD for u64 {}

pub(crate) trait BoolAsSIMD: Sized {
    fn any(self) -> bool;
}

impl BoolAsSIMD for bool {
    #[inline(always)]
    fn any(self) -> bool {
        self
    }
}

macro_rules! scalar_float_impl {
    ($ty:ident, $uty:ident) => {
        impl FloatSIMDUtils for $ty {
            type Mask = bool;
            type UInt = $uty;

            #[inline(always)]
            fn all_lt(self, other: Self) -> bool {
                self < other
            }

            #[inline(always)]
            fn all_le(self, other: Self) -> bool {
                self <= other
            }

            #[inline(always)]
            fn all_finite(self) -> bool {
                self.is_finite()
            }

            #[inline(always)]
            fn gt_mask(self, other: Self) -> Self::Mask {
                self > other
            }

            #[inline(always)]
            fn decrease_masked(self, mask: Self::Mask) -> Self {
                debug_assert!(mask, "At least one lane must be set");
                <$ty>::from_bits(self.to_bits() - 1)
            }

            #[inline]
            fn cast_from_int(i: Self::UInt) -> Self {
                i as $ty
            }
        }

        #[cfg(test)]
        impl FloatSIMDScalarUtils for $ty {
            type Scalar = $ty;

            #[inline]
            fn replace(self, index: usize, new_value: Self::Scalar) -> Self {
                debug_assert_eq!(index, 0);
                new_value
            }

            #[inline]
            fn extract_lane(self, index: usize) -> Self::Scalar {
                debug_assert_eq!(index, 0);
                self
            }
        }

        impl FloatAsSIMD for $ty {}
    };
}

scalar_float_impl!(f32, u32);
scalar_float_impl!(f64, u64);

#[cfg(feature = "simd_support")]
macro_rules! simd_impl {
    ($fty:ident, $uty:ident) => {
        impl<const LANES: usize> FloatSIMDUtils for Simd<$fty, LANES>
        where
            LaneCount<LANES>: SupportedLaneCount,
        {
            type Mask = Mask<<$fty as SimdElement>::Mask, LANES>;
            type UInt = Simd<$uty, LANES>;

            #[inline(always)]
            fn all_lt(self, other: Self) -> bool {
                self.simd_lt(other).all()
            }

            #[inline(always)]
            fn all_le(self, other: Self) -> bool {
                self.simd_le(other).all()
            }

            #[inline(always)]
            fn all_finite(self) -> bool {
                self.is_finite().all()
            }

            #[inline(always)]
            fn gt_mask(self, other: Self) -> Self::Mask {
                self.simd_gt(other)
            }

            #[inline(always)]
            fn decrease_masked(self, mask: Self::Mask) -> Self {
                // Casting a mask into ints will produce all bits set for
                // true, and 0 for false. Adding that to the binary
                // representation of a float means subtracting one from
                // the binary representation, resulting in the next lower
                // value representable by $fty. This works even when the
                // current value is infinity.
                debug_assert!(mask.any(), "At least one lane must be set");
                Self::from_bits(self.to_bits() + mask.to_int().cast())
            }

            #[inline]
            fn cast_from_int(i: Self::UInt) -> Self {
                i.cast()
            }
        }

        #[cfg(test)]
        impl<const LANES: usize> FloatSIMDScalarUtils for Simd<$fty, LANES>
        where
            LaneCount<LANES>: SupportedLaneCount,
        {
            type Scalar = $fty;

            #[inline]
            fn replace(mut self, index: usize, new_value: Self::Scalar) -> Self {
                self.as_mut_array()[index] = new_value;
                self
            }

            #[inline]
            fn extract_lane(self, index: usize) -> Self::Scalar {
                self.as_array()[index]
            }
        }
    };
}

#[cfg(feature = "simd_support")]
simd_impl!(f32, u32);
#[cfg(feature = "simd_support")]
simd_impl!(f64, u64);
