// Copyright 2018 Developers of the Rand project.
//
// Licensed under the Apache License, Version 2.0 <LICENSE-APACHE or
// https://www.apache.org/licenses/LICENSE-2.0> or the MIT license
// <LICENSE-MIT or https://opensource.org/licenses/MIT>, at your
// option. This file may not be copied, modified, or distributed
// except according to those terms.

//! The implementations of the `StandardUniform` distribution for integer types.

use crate::distr::{Distribution, StandardUniform};
use crate::Rng;
#[cfg(all(target_arch = "x86", feature = "simd_support"))]
use core::arch::x86::__m512i;
#[cfg(target_arch = "x86")]
use core::arch::x86::{__m128i, __m256i};
#[cfg(all(target_arch = "x86_64", feature = "simd_support"))]
use core::arch::x86_64::__m512i;
#[cfg(target_arch = "x86_64")]
use core::arch::x86_64::{__m128i, __m256i};
use core::num::{
    NonZeroI128, NonZeroI16, NonZeroI32, NonZeroI64, NonZeroI8, NonZeroU128, NonZeroU16,
    NonZeroU32, NonZeroU64, NonZeroU8,
};
#[cfg(feature = "simd_support")]
use core::simd::*;

impl Distribution<u8> for StandardUniform {
    #[inline]
    fn sample<R: Rng + ?Sized>(&self, rng: &mut R) -> u8 {
        rng.next_u32() as u8
    }
}

impl Distribution<u16> for StandardUniform {
    #[inline]
    fn sample<R: Rng + ?Sized>(&self, rng: &mut R) -> u16 {
        rng.next_u32() as u16
    }
}

impl Distribution<u32> for StandardUniform {
    #[inline]
    fn sample<R: Rng + ?Sized>(&self, rng: &mut R) -> u32 {
        rng.next_u32()
    }
}

impl Distribution<u64> for StandardUniform {
    #[inline]
    fn sample<R: Rng + ?Sized>(&self, rng: &mut R) -> u64 {
        rng.next_u64()
    }
}

impl Distribution<u128> for StandardUniform {
    #[inline]
    fn sample<R: Rng + ?Sized>(&self, rng: &mut R) -> u128 {
        // Use LE; we explicitly generate one value before the next.
        let x = u128::from(rng.next_u64());
        let y = u128::from(rng.next_u64());
        (y << 64) | x
    }
}

macro_rules! impl_int_from_uint {
    ($ty:ty, $uty:ty) => {
        impl Distribution<$ty> for StandardUniform {
            #[inline]
            fn sample<R: Rng + ?Sized>(&self, rng: &mut R) -> $ty {
                rng.random::<$uty>() as $ty
            }
        }
    };
}

impl_int_from_uint! { i8, u8 }
impl_int_from_uint! { i16, u16 }
impl_int_from_uint! { i32, u32 }
impl_int_from_uint! { i64, u64 }
impl_int_from_uint! { i128, u128 }

macro_rules! impl_nzint {
    ($ty:ty, $new:path) => {
        impl Distribution<$ty> for StandardUniform {
            fn sample<R: Rng + ?Sized>(&self, rng: &mut R) -> $ty {
                loop {
                    if let Some(nz) = $new(rng.random()) {
                        break nz;
                    }
                }
            }
        }
    };
}

impl_nzint!(NonZeroU8, NonZeroU8::new);
impl_nzint!(NonZeroU16, NonZeroU16::new);
impl_nzint!(NonZeroU32, NonZeroU32::new);
impl_nzint!(NonZeroU64, NonZeroU64::new);
impl_nzint!(NonZeroU128, NonZeroU128::new);

impl_nzint!(NonZeroI8, NonZeroI8::new);
impl_nzint!(NonZeroI16, NonZeroI16::new);
impl_nzint!(NonZeroI32, NonZeroI32::new);
impl_nzint!(NonZeroI64, NonZeroI64::new);
impl_nzint!(NonZeroI128, NonZeroI128::new);

#[cfg(any(target_arch = "x86", target_arch = "x86_64"))]
impl Distribution<__m128i> for StandardUniform {
    #[inline]
    fn sample<R: Rng + ?Sized>(&self, rng: &mut R) -> __m128i {
        // NOTE: It's tempting to use the u128 impl here, but confusingly this
        // results in different code (return via rdx, r10 instead of rax, rdx
        // with u128 impl) and is much slower (+130 time). This version calls
        // impls::fill_bytes_via_next but performs well.

        let mut buf = [0_u8; core::mem::size_of::<__m128i>()];
        rng.fill_bytes(&mut buf);
        // x86 is little endian so no need for conversion

        // SAFETY: All byte sequences of `buf` represent values of the output type.
        unsafe { core::mem::transmute(buf) }
    }
}

#[cfg(any(target_arch = "x86", target_arch = "x86_64"))]
impl Distribution<__m256i> for StandardUniform {
    #[inline]
    fn sample<R: Rng + ?Sized>(&self, rng: &mut R) -> __m256i {
        let mut buf = [0_u8; core::mem::size_of::<__m256i>()];
        rng.fill_bytes(&mut buf);
        // x86 is little endian so no need for conversion

        // SAFETY: All byte sequences of `buf` represent values of the output type.
        unsafe { core::mem::transmute(buf) }
    }
}

#[cfg(all(
    any(target_arch = "x86", target_arch = "x86_64"),
    feature = "simd_support"
))]
impl Distribution<__m512i> for StandardUniform {
    #[inline]
    fn sample<R: Rng + ?Sized>(&self, rng: &mut R) -> __m512i {
        let mut buf = [0_u8; core::mem::size_of::<__m512i>()];
        rng.fill_bytes(&mut buf);
        // x86 is little endian so no need for conversion

        // SAFETY: All byte sequences of `buf` represent values of the output type.
        unsafe { core::mem::transmute(buf) }
    }
}

#[cfg(feature = "simd_support")]
macro_rules! simd_impl {
    ($($ty:ty),+) => {$(
        /// Requires nightly Rust and the [`simd_support`] feature
        ///
        /// [`simd_support`]: https://github.com/rust-random/rand#crate-features
        #[cfg(feature = "simd_support")]
        impl<const LANES: usize> Distribution<Simd<$ty, LANES>> for StandardUniform
        where
            LaneCount<LANES>: SupportedLaneCount,
        {
            #[inline]
            fn sample<R: Rng + ?Sized>(&self, rng: &mut R) -> Simd<$ty, LANES> {
                let mut vec = Simd::default();
                rng.fill(vec.as_mut_array().as_mut_slice());
                vec
            }
        }
    )+};
}

#[cfg(feature = "simd_support")]
simd_impl!(u8, i8, u16, i16, u32, i32, u64, i64);

#[cfg(test)]
mod tests {
    use super::*;

    #[test]
    fn test_integers() {
        let mut rng = crate::test::rng(806);

        rng.sample::<i8, _>(StandardUniform);
        rng.sample::<i16, _>(StandardUniform);
        rng.sample::<i32, _>(StandardUniform);
        rng.sample::<i64, _>(StandardUniform);
        rng.sample::<i128, _>(StandardUniform);

        rng.sample::<u8, _>(StandardUniform);
        rng.sample::<u16, _>(StandardUniform);
        rng.sample::<u32, _>(StandardUniform);
        rng.sample::<u64, _>(StandardUniform);
        rng.sample::<u128, _>(StandardUniform);
    }

    #[cfg(any(target_arch = "x86", target_arch = "x86_64"))]
    #[test]
    fn x86_integers() {
        let mut rng = crate::test::rng(807);

        rng.sample::<__m128i, _>(StandardUniform);
        rng.sample::<__m256i, _>(StandardUniform);
        #[cfg(feature = "simd_support")]
        rng.sample::<__m512i, _>(StandardUniform);
    }

    #[test]
    fn value_stability() {
        fn test_samples<T: Copy + core::fmt::Debug + PartialEq>(zero: T, expected: &[T])
        where
            StandardUniform: Distribution<T>,
        {
            let mut rng = crate::test::rng(807);
            let mut buf = [zero; 3];
            for x in &mut buf {
                *x = rng.sample(StandardUniform);
            }
            assert_eq!(&buf, expected);
        }

        test_samples(0u8, &[9, 247, 111]);
        test_samples(0u16, &[32265, 42999, 38255]);
        test_samples(0u32, &[2220326409, 2575017975, 2018088303]);
        test_samples(
            0u64,
            &[
                11059617991457472009,
                16096616328739788143,
                1487364411147516184,
            ],
        );
        test_samples(
            0u128,
            &[
                296930161868957086625409848350820761097,
                145644820879247630242265036535529306392,
                111087889832015897993126088499035356354,
            ],
        );

        test_samples(0i8, &[9, -9, 111]);
        // Skip further i* types: they are simple reinterpretation of u* samples

        #[cfg(feature = "simd_support")]
        {
            // We only test a sub-set of types here and make assumptions about the rest.

            test_samples(
                u8x4::default(),
                &[
                    u8x4::from([9, 126, 87, 132]),
                    u8x4::from([247, 167, 123, 153]),
                    u8x4::from([111, 149, 73, 120]),
                ],
            );
            test_samples(
                u8x8::default(),
                &[
                    u8x8::from([9, 126, 87, 132, 247, 167, 123, 153]),
                    u8x8::from([111, 149, 73, 120, 68, 171, 98, 223]),
                    u8x8::from([24, 121, 1, 50, 13, 46, 164, 20]),
                ],
            );

            test_samples(
                i64x8::default(),
                &[
                    i64x8::from([
                        -7387126082252079607,
                        -2350127744969763473,
                        1487364411147516184,
                        7895421560427121838,
                        602190064936008898,
                        6022086574635100741,
                        -5080089175222015595,
                        -4066367846667249123,
                    ]),
                    i64x8::from([
                        9180885022207963908,
                        3095981199532211089,
                        6586075293021332726,
                        419343203796414657,
                        3186951873057035255,
                        5287129228749947252,
                        444726432079249540,
                        -1587028029513790706,
                    ]),
                    i64x8::from([
                        6075236523189346388,
                        1351763722368165432,
                        -6192309979959753740,
                        -7697775502176768592,
                        -4482022114172078123,
                        7522501477800909500,
                        -1837258847956201231,
                        -586926753024886735,
                    ]),
                ],
            );
        }
    }
}
