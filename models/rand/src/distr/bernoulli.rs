// Copyright 2018 Developers of the Rand project.
//
// Licensed under the Apache License, Version 2.0 <LICENSE-APACHE or
// https://www.apache.org/licenses/LICENSE-2.0> or the MIT license
// <LICENSE-MIT or https://opensource.org/licenses/MIT>, at your
// option. This file may not be copied, modified, or distributed
// except according to those terms.

//! The Bernoulli distribution `Bernoulli(p)`.

use crate::distr::Distribution;
use crate::Rng;
use core::fmt;

#[cfg(feature = "serde")]
use serde::{Deserialize, Serialize};

/// The [Bernoulli distribution](https://en.wikipedia.org/wiki/Bernoulli_distribution) `Bernoulli(p)`.
///
/// This distribution describes a single boolean random variable, which is true
/// with probability `p` and false with probability `1 - p`.
/// It is a special case of the Binomial distribution with `n = 1`.
///
/// # Plot
///
/// The following plot shows the Bernoulli distribution with `p = 0.1`,
/// `p = 0.5`, and `p = 0.9`.
///
/// ![Bernoulli distribution](https://raw.githubusercontent.com/rust-random/charts/main/charts/bernoulli.svg)
///
/// # Example
///
/// ```rust
/// use rand::distr::{Bernoulli, Distribution};
///
/// let d = Bernoulli::new(0.3).unwrap();
/// let v = d.sample(&mut rand::rng());
/// println!("{} is from a Bernoulli distribution", v);
/// ```
///
/// # Precision
///
/// This `Bernoulli` distribution uses 64 bits from the RNG (a `u64`),
/// so only probabilities that are multiples of 2<sup>-64</sup> can be
/// represented.
#[derive(Clone, Copy, Debug, PartialEq)]
#[cfg_attr(feature = "serde", derive(Serialize, Deserialize))]
pub struct Bernoulli {
    /// Probability of success, relative to the maximal integer.
    p_int: u64,
}

// To sample from the Bernoulli distribution we use a method that compares a
// random `u64` value `v < (p * 2^64)`.
//
// If `p == 1.0`, the integer `v` to compare against can not represented as a
// `u64`. We manually set it to `u64::MAX` instead (2^64 - 1 instead of 2^64).
// Note that  value of `p < 1.0` can never result in `u64::MAX`, because an
// `f64` only has 53 bits of precision, and the next largest value of `p` will
// result in `2^64 - 2048`.
//
// Also there is a 100% theoretical concern: if someone consistently wants to
// generate `true` using the Bernoulli distribution (i.e. by using a probability
// of `1.0`), just using `u64::MAX` is not enough. On average it would return
// false once every 2^64 iterations. Some people apparently care about this
// case.
//
// That is why we special-case `u64::MAX` to always return `true`, without using
// the RNG, and pay the performance price for all uses that *are* reasonable.
// Luckily, if `new()` and `sample` are close, the compiler can optimize out the
// extra check.
const ALWAYS_TRUE: u64 = u64::MAX;

// This is just `2.0.powi(64)`, but written this way because it is not available
// in `no_std` mode.
const SCALE: f64 = 2.0 * (1u64 << 63) as f64;

/// Error type returned from [`Bernoulli::new`].
#[derive(Clone, Copy, Debug, PartialEq, Eq)]
pub enum BernoulliError {
    /// `p < 0` or `p > 1`.
    InvalidProbability,
}

impl fmt::Display for BernoulliError {
    fn fmt(&self, f: &mut fmt::Formatter<'_>) -> fmt::Result {
        f.write_str(match self {
            BernoulliError::InvalidProbability => "p is outside [0, 1] in Bernoulli distribution",
        })
    }
}

#[cfg(feature = "std")]
impl std::error::Error for BernoulliError {}

impl Bernoulli {
    /// Construct a new `Bernoulli` with the given probability of success `p`.
    ///
    /// # Precision
    ///
    /// For `p = 1.0`, the resulting distribution will always generate true.
    /// For `p = 0.0`, the resulting distribution will always generate false.
    ///
    /// This method is accurate for any input `p` in the range `[0, 1]` which is
    /// a multiple of 2<sup>-64</sup>. (Note that not all multiples of
    /// 2<sup>-64</sup> in `[0, 1]` can be represented as a `f64`.)
    #[inline]
    pub fn new(p: f64) -> Result<Bernoulli, BernoulliError> {
        if !(0.0..1.0).contains(&p) {
            if p == 1.0 {
                return Ok(Bernoulli { p_int: ALWAYS_TRUE });
            }
            return Err(BernoulliError::InvalidProbability);
        }
        Ok(Bernoulli {
            p_int: (p * SCALE) as u64,
        })
    }

    /// Construct a new `Bernoulli` with the probability of success of
    /// `numerator`-in-`denominator`. I.e. `new_ratio(2, 3)` will return
    /// a `Bernoulli` with a 2-in-3 chance, or about 67%, of returning `true`.
    ///
    /// return `true`. If `numerator == 0` it will always return `false`.
    /// For `numerator > denominator` and `denominator == 0`, this returns an
    /// error. Otherwise, for `numerator == denominator`, samples are always
    /// true; for `numerator == 0` samples are always false.
    #[inline]
    pub fn from_ratio(numerator: u32, denominator: u32) -> Result<Bernoulli, BernoulliError> {
        if numerator > denominator || denominator == 0 {
            return Err(BernoulliError::InvalidProbability);
        }
        if numerator == denominator {
            return Ok(Bernoulli { p_int: ALWAYS_TRUE });
        }
        let p_int = ((f64::from(numerator) / f64::from(denominator)) * SCALE) as u64;
        Ok(Bernoulli { p_int })
    }

    #[inline]
    /// Returns the probability (`p`) of the distribution.
    ///
    /// This value may differ slightly from the input due to loss of precision.
    pub fn p(&self) -> f64 {
        if self.p_int == ALWAYS_TRUE {
            1.0
        } else {
            (self.p_int as f64) / SCALE
        }
    }
}

impl Distribution<bool> for Bernoulli {
    #[inline]
    fn sample<R: Rng + ?Sized>(&self, rng: &mut R) -> bool {
        // Make sure to always return true for p = 1.0.
        if self.p_int == ALWAYS_TRUE {
            return true;
        }
        let v: u64 = rng.random();
        v < self.p_int
    }
}

#[cfg(test)]
mod test {
    use super::Bernoulli;
    use crate::distr::Distribution;
    use crate::Rng;

    #[test]
    #[cfg(feature = "serde")]
    fn test_serializing_deserializing_bernoulli() {
        let coin_flip = Bernoulli::new(0.5).unwrap();
        let de_coin_flip: Bernoulli =
            bincode::deserialize(&bincode::serialize(&coin_flip).unwrap()).unwrap();

        assert_eq!(coin_flip.p_int, de_coin_flip.p_int);
    }

    #[test]
    fn test_trivial() {
        // We prefer to be explicit here.
        #![allow(clippy::bool_assert_comparison)]

        let mut r = crate::test::rng(1);
        let always_false = Bernoulli::new(0.0).unwrap();
        let always_true = Bernoulli::new(1.0).unwrap();
        for _ in 0..5 {
            assert_eq!(r.sample::<bool, _>(&always_false), false);
            assert_eq!(r.sample::<bool, _>(&always_true), true);
            assert_eq!(Distribution::<bool>::sample(&always_false, &mut r), false);
            assert_eq!(Distribution::<bool>::sample(&always_true, &mut r), true);
        }
    }

    #[test]
    #[cfg_attr(miri, ignore)] // Miri is too slow
    fn test_average() {
        const P: f64 = 0.3;
        const NUM: u32 = 3;
        const DENOM: u32 = 10;
        let d1 = Bernoulli::new(P).unwrap();
        let d2 = Bernoulli::from_ratio(NUM, DENOM).unwrap();
        const N: u32 = 100_000;

        let mut sum1: u32 = 0;
        let mut sum2: u32 = 0;
        let mut rng = crate::test::rng(2);
        for _ in 0..N {
            if d1.sample(&mut rng) {
                sum1 += 1;
            }
            if d2.sample(&mut rng) {
                sum2 += 1;
            }
        }
        let avg1 = (sum1 as f64) / (N as f64);
        assert!((avg1 - P).abs() < 5e-3);

        let avg2 = (sum2 as f64) / (N as f64);
        assert!((avg2 - (NUM as f64) / (DENOM as f64)).abs() < 5e-3);
    }

    #[test]
    fn value_stability() {
        let mut rng = crate::test::rng(3);
        let distr = Bernoulli::new(0.4532).unwrap();
        let mut buf = [false; 10];
        for x in &mut buf {
            *x = rng.sample(distr);
        }
        assert_eq!(
            buf,
            [true, false, false, true, false, false, true, true, true, true]
        );
    }

    #[test]
    fn bernoulli_distributions_can_be_compared() {
        assert_eq!(Bernoulli::new(1.0), Bernoulli::new(1.0));
    }
}
