// Copyright 2018 Developers of the Rand project.
// Copyright 2013-2017 The Rust Project Developers.
//
// Licensed under the Apache License, Version 2.0 <LICENSE-APACHE or
// https://www.apache.org/licenses/LICENSE-2.0> or the MIT license
// <LICENSE-MIT or https://opensource.org/licenses/MIT>, at your
// option. This file may not be copied, modified, or distributed
// except according to those terms.

//! Generating random samples from probability distributions
//!
//! This module is the home of the [`Distribution`] trait and several of its
//! implementations. It is the workhorse behind some of the convenient
//! functionality of the [`Rng`] trait, e.g. [`Rng::random`] and of course
//! [`Rng::sample`].
//!
//! Abstractly, a [probability distribution] describes the probability of
//! occurrence of each value in its sample space.
//!
//! More concretely, an implementation of `Distribution<T>` for type `X` is an
//! algorithm for choosing values from the sample space (a subset of `T`)
//! according to the distribution `X` represents, using an external source of
//! randomness (an RNG supplied to the `sample` function).
//!
//! A type `X` may implement `Distribution<T>` for multiple types `T`.
//! Any type implementing [`Distribution`] is stateless (i.e. immutable),
//! but it may have internal parameters set at construction time (for example,
//! [`Uniform`] allows specification of its sample space as a range within `T`).
//!
//!
//! # The Standard Uniform distribution
//!
//! The [`StandardUniform`] distribution is important to mention. This is the
//! distribution used by [`Rng::random`] and represents the "default" way to
//! produce a random value for many different types, including most primitive
//! types, tuples, arrays, and a few derived types. See the documentation of
//! [`StandardUniform`] for more details.
//!
//! Implementing [`Distribution<T>`] for [`StandardUniform`] for user types `T` makes it
//! possible to generate type `T` with [`Rng::random`], and by extension also
//! with the [`random`] function.
//!
//! ## Other standard uniform distributions
//!
//! [`Alphanumeric`] is a simple distribution to sample random letters and
//! numbers of the `char` type; in contrast [`StandardUniform`] may sample any valid
//! `char`.
//!
//! There's also an [`Alphabetic`] distribution which acts similarly to [`Alphanumeric`] but
//! doesn't include digits.
//!
//! For floats (`f32`, `f64`), [`StandardUniform`] samples from `[0, 1)`. Also
//! provided are [`Open01`] (samples from `(0, 1)`) and [`OpenClosed01`]
//! (samples from `(0, 1]`). No option is provided to sample from `[0, 1]`; it
//! is suggested to use one of the above half-open ranges since the failure to
//! sample a value which would have a low chance of being sampled anyway is
//! rarely an issue in practice.
//!
//! # Parameterized Uniform distributions
//!
//! The [`Uniform`] distribution provides uniform sampling over a specified
//! range on a subset of the types supported by the above distributions.
//!
//! Implementations support single-value-sampling via
//! [`Rng::random_range(Range)`](Rng::random_range).
//! Where a fixed (non-`const`) range will be sampled many times, it is likely
//! faster to pre-construct a [`Distribution`] object using
//! [`Uniform::new`], [`Uniform::new_inclusive`] or `From<Range>`.
//!
//! # Non-uniform sampling
//!
//! Sampling a simple true/false outcome with a given probability has a name:
//! the [`Bernoulli`] distribution (this is used by [`Rng::random_bool`]).
//!
//! For weighted sampling of discrete values see the [`weighted`] module.
//!
//! This crate no longer includes other non-uniform distributions; instead
//! it is recommended that you use either [`rand_distr`] or [`statrs`].
//!
//!
//! [probability distribution]: https://en.wikipedia.org/wiki/Probability_distribution
//! [`rand_distr`]: https://crates.io/crates/rand_distr
//! [`statrs`]: https://crates.io/crates/statrs

//! [`random`]: crate::random
//! [`rand_distr`]: https://crates.io/crates/rand_distr
//! [`statrs`]: https://crates.io/crates/statrs

mod bernoulli;
mod distribution;
mod float;
mod integer;
mod other;
mod utils;

#[doc(hidden)]
pub mod hidden_export {
    pub use super::float::IntoFloat; // used by rand_distr
}
pub mod slice;
pub mod uniform;
#[cfg(feature = "alloc")]
pub mod weighted;

pub use self::bernoulli::{Bernoulli, BernoulliError};
#[cfg(feature = "alloc")]
pub use self::distribution::SampleString;
pub use self::distribution::{Distribution, Iter, Map};
pub use self::float::{Open01, OpenClosed01};
pub use self::other::{Alphabetic, Alphanumeric};
#[doc(inline)]
pub use self::uniform::Uniform;

#[allow(unused)]
use crate::Rng;

/// The Standard Uniform distribution
///
/// This [`Distribution`] is the *standard* parameterization of [`Uniform`]. Bounds
/// are selected according to the output type.
///
/// Assuming the provided `Rng` is well-behaved, these implementations
/// generate values with the following ranges and distributions:
///
/// * Integers (`i8`, `i32`, `u64`, etc.) are uniformly distributed
///   over the whole range of the type (thus each possible value may be sampled
///   with equal probability).
/// * `char` is uniformly distributed over all Unicode scalar values, i.e. all
///   code points in the range `0...0x10_FFFF`, except for the range
///   `0xD800...0xDFFF` (the surrogate code points). This includes
///   unassigned/reserved code points.
///   For some uses, the [`Alphanumeric`] or [`Alphabetic`] distribution will be more
///   appropriate.
/// * `bool` samples `false` or `true`, each with probability 0.5.
/// * Floating point types (`f32` and `f64`) are uniformly distributed in the
///   half-open range `[0, 1)`. See also the [notes below](#floating-point-implementation).
/// * Wrapping integers ([`Wrapping<T>`]), besides the type identical to their
///   normal integer variants.
/// * Non-zero integers ([`NonZeroU8`]), which are like their normal integer
///   variants but cannot sample zero.
///
/// The `StandardUniform` distribution also supports generation of the following
/// compound types where all component types are supported:
///
/// * Tuples (up to 12 elements): each element is sampled sequentially and
///   independently (thus, assuming a well-behaved RNG, there is no correlation
///   between elements).
/// * Arrays `[T; n]` where `T` is supported. Each element is sampled
///   sequentially and independently. Note that for small `T` this usually
///   results in the RNG discarding random bits; see also [`Rng::fill`] which
///   offers a more efficient approach to filling an array of integer types
///   with random data.
/// * SIMD types (requires [`simd_support`] feature) like x86's [`__m128i`]
///   and `std::simd`'s [`u32x4`], [`f32x4`] and [`mask32x4`] types are
///   effectively arrays of integer or floating-point types. Each lane is
///   sampled independently, potentially with more efficient random-bit-usage
///   (and a different resulting value) than would be achieved with sequential
///   sampling (as with the array types above).
///
/// ## Custom implementations
///
/// The [`StandardUniform`] distribution may be implemented for user types as follows:
///
/// ```
/// # #![allow(dead_code)]
/// use rand::Rng;
/// use rand::distr::{Distribution, StandardUniform};
///
/// struct MyF32 {
///     x: f32,
/// }
///
/// impl Distribution<MyF32> for StandardUniform {
///     fn sample<R: Rng + ?Sized>(&self, rng: &mut R) -> MyF32 {
///         MyF32 { x: rng.random() }
///     }
/// }
/// ```
///
/// ## Example usage
/// ```
/// use rand::prelude::*;
/// use rand::distr::StandardUniform;
///
/// let val: f32 = rand::rng().sample(StandardUniform);
/// println!("f32 from [0, 1): {}", val);
/// ```
///
/// # Floating point implementation
/// The floating point implementations for `StandardUniform` generate a random value in
/// the half-open interval `[0, 1)`, i.e. including 0 but not 1.
///
/// All values that can be generated are of the form `n * ε/2`. For `f32`
/// the 24 most significant random bits of a `u32` are used and for `f64` the
/// 53 most significant bits of a `u64` are used. The conversion uses the
/// multiplicative method: `(rng.gen::<$uty>() >> N) as $ty * (ε/2)`.
///
/// See also: [`Open01`] which samples from `(0, 1)`, [`OpenClosed01`] which
/// samples from `(0, 1]` and `Rng::random_range(0..1)` which also samples from
/// `[0, 1)`. Note that `Open01` uses transmute-based methods which yield 1 bit
/// less precision but may perform faster on some architectures (on modern Intel
/// CPUs all methods have approximately equal performance).
///
/// [`Uniform`]: uniform::Uniform
/// [`Wrapping<T>`]: std::num::Wrapping
/// [`NonZeroU8`]: std::num::NonZeroU8
/// [`__m128i`]: https://doc.rust-lang.org/core/arch/x86/struct.__m128i.html
/// [`u32x4`]: std::simd::u32x4
/// [`f32x4`]: std::simd::f32x4
/// [`mask32x4`]: std::simd::mask32x4
/// [`simd_support`]: https://github.com/rust-random/rand#crate-features
#[derive(Clone, Copy, Debug, Default)]
#[cfg_attr(feature = "serde", derive(serde::Serialize, serde::Deserialize))]
pub struct StandardUniform;
