// Copyright 2018-2020 Developers of the Rand project.
// Copyright 2017 The Rust Project Developers.
//
// Licensed under the Apache License, Version 2.0 <LICENSE-APACHE or
// https://www.apache.org/licenses/LICENSE-2.0> or the MIT license
// <LICENSE-MIT or https://opensource.org/licenses/MIT>, at your
// option. This file may not be copied, modified, or distributed
// except according to those terms.

//! `UniformFloat` implementation

use super::{Error, SampleBorrow, SampleUniform, UniformSampler};
use crate::distr::float::IntoFloat;
use crate::distr::utils::{BoolAsSIMD, FloatAsSIMD, FloatSIMDUtils, IntAsSIMD};
use crate::Rng;

#[cfg(feature = "simd_support")]
use core::simd::prelude::*;
// #[cfg(feature = "simd_support")]
// use core::simd::{LaneCount, SupportedLaneCount};

#[cfg(feature = "serde")]
use serde::{Deserialize, Serialize};

/// The back-end implementing [`UniformSampler`] for floating-point types.
///
/// Unless you are implementing [`UniformSampler`] for your own type, this type
/// should not be used directly, use [`Uniform`] instead.
///
/// # Implementation notes
///
/// `UniformFloat` implementations convert RNG output to a float in the range
/// `[1, 2)` via transmutation, map this to `[0, 1)`, then scale and translate
/// to the desired range. Values produced this way have what equals 23 bits of
/// random digits for an `f32` and 52 for an `f64`.
///
/// # Bias and range errors
///
/// Bias may be expected within the least-significant bit of the significand.
/// It is not guaranteed that exclusive limits of a range are respected; i.e.
/// when sampling the range `[a, b)` it is not guaranteed that `b` is never
/// sampled.
///
/// [`new`]: UniformSampler::new
/// [`new_inclusive`]: UniformSampler::new_inclusive
/// [`StandardUniform`]: crate::distr::StandardUniform
/// [`Uniform`]: super::Uniform
#[derive(Clone, Copy, Debug, PartialEq)]
#[cfg_attr(feature = "serde", derive(Serialize, Deserialize))]
pub struct UniformFloat<X> {
    low: X,
    scale: X,
}

macro_rules! uniform_float_impl {
    ($($meta:meta)?, $ty:ty, $uty:ident, $f_scalar:ident, $u_scalar:ident, $bits_to_discard:expr) => {
        $(#[cfg($meta)])?
        impl UniformFloat<$ty> {
            /// Construct, reducing `scale` as required to ensure that rounding
            /// can never yield values greater than `high`.
            ///
            /// Note: though it may be tempting to use a variant of this method
            /// to ensure that samples from `[low, high)` are always strictly
            /// less than `high`, this approach may be very slow where
            /// `scale.abs()` is much smaller than `high.abs()`
            /// (example: `low=0.99999999997819644, high=1.`).
            fn new_bounded(low: $ty, high: $ty, mut scale: $ty) -> Self {
                let max_rand = <$ty>::splat(1.0 as $f_scalar - $f_scalar::EPSILON);

                loop {
                    let mask = (scale * max_rand + low).gt_mask(high);
                    if !mask.any() {
                        break;
                    }
                    scale = scale.decrease_masked(mask);
                }

                debug_assert!(<$ty>::splat(0.0).all_le(scale));

                UniformFloat { low, scale }
            }
        }

        $(#[cfg($meta)])?
        impl SampleUniform for $ty {
            type Sampler = UniformFloat<$ty>;
        }

        $(#[cfg($meta)])?
        impl UniformSampler for UniformFloat<$ty> {
            type X = $ty;

            fn new<B1, B2>(low_b: B1, high_b: B2) -> Result<Self, Error>
            where
                B1: SampleBorrow<Self::X> + Sized,
                B2: SampleBorrow<Self::X> + Sized,
            {
                let low = *low_b.borrow();
                let high = *high_b.borrow();
                #[cfg(debug_assertions)]
                if !(low.all_finite()) || !(high.all_finite()) {
                    return Err(Error::NonFinite);
                }
                if !(low.all_lt(high)) {
                    return Err(Error::EmptyRange);
                }

                let scale = high - low;
                if !(scale.all_finite()) {
                    return Err(Error::NonFinite);
                }

                Ok(Self::new_bounded(low, high, scale))
            }

            fn new_inclusive<B1, B2>(low_b: B1, high_b: B2) -> Result<Self, Error>
            where
                B1: SampleBorrow<Self::X> + Sized,
                B2: SampleBorrow<Self::X> + Sized,
            {
                let low = *low_b.borrow();
                let high = *high_b.borrow();
                #[cfg(debug_assertions)]
                if !(low.all_finite()) || !(high.all_finite()) {
                    return Err(Error::NonFinite);
                }
                if !low.all_le(high) {
                    return Err(Error::EmptyRange);
                }

                let max_rand = <$ty>::splat(1.0 as $f_scalar - $f_scalar::EPSILON);
                let scale = (high - low) / max_rand;
                if !scale.all_finite() {
                    return Err(Error::NonFinite);
                }

                Ok(Self::new_bounded(low, high, scale))
            }

            fn sample<R: Rng + ?Sized>(&self, rng: &mut R) -> Self::X {
                // Generate a value in the range [1, 2)
                let value1_2 = (rng.random::<$uty>() >> $uty::splat($bits_to_discard)).into_float_with_exponent(0);

                // Get a value in the range [0, 1) to avoid overflow when multiplying by scale
                let value0_1 = value1_2 - <$ty>::splat(1.0);

                // We don't use `f64::mul_add`, because it is not available with
                // `no_std`. Furthermore, it is slower for some targets (but
                // faster for others). However, the order of multiplication and
                // addition is important, because on some platforms (e.g. ARM)
                // it will be optimized to a single (non-FMA) instruction.
                value0_1 * self.scale + self.low
            }

            #[inline]
            fn sample_single<R: Rng + ?Sized, B1, B2>(low_b: B1, high_b: B2, rng: &mut R) -> Result<Self::X, Error>
            where
                B1: SampleBorrow<Self::X> + Sized,
                B2: SampleBorrow<Self::X> + Sized,
            {
                Self::sample_single_inclusive(low_b, high_b, rng)
            }

            #[inline]
            fn sample_single_inclusive<R: Rng + ?Sized, B1, B2>(low_b: B1, high_b: B2, rng: &mut R) -> Result<Self::X, Error>
            where
                B1: SampleBorrow<Self::X> + Sized,
                B2: SampleBorrow<Self::X> + Sized,
            {
                let low = *low_b.borrow();
                let high = *high_b.borrow();
                #[cfg(debug_assertions)]
                if !low.all_finite() || !high.all_finite() {
                    return Err(Error::NonFinite);
                }
                if !low.all_le(high) {
                    return Err(Error::EmptyRange);
                }
                let scale = high - low;
                if !scale.all_finite() {
                    return Err(Error::NonFinite);
                }

                // Generate a value in the range [1, 2)
                let value1_2 =
                    (rng.random::<$uty>() >> $uty::splat($bits_to_discard)).into_float_with_exponent(0);

                // Get a value in the range [0, 1) to avoid overflow when multiplying by scale
                let value0_1 = value1_2 - <$ty>::splat(1.0);

                // Doing multiply before addition allows some architectures
                // to use a single instruction.
                Ok(value0_1 * scale + low)
            }
        }
    };
}

uniform_float_impl! { , f32, u32, f32, u32, 32 - 23 }
uniform_float_impl! { , f64, u64, f64, u64, 64 - 52 }

#[cfg(feature = "simd_support")]
uniform_float_impl! { feature = "simd_support", f32x2, u32x2, f32, u32, 32 - 23 }
#[cfg(feature = "simd_support")]
uniform_float_impl! { feature = "simd_support", f32x4, u32x4, f32, u32, 32 - 23 }
#[cfg(feature = "simd_support")]
uniform_float_impl! { feature = "simd_support", f32x8, u32x8, f32, u32, 32 - 23 }
#[cfg(feature = "simd_support")]
uniform_float_impl! { feature = "simd_support", f32x16, u32x16, f32, u32, 32 - 23 }

#[cfg(feature = "simd_support")]
uniform_float_impl! { feature = "simd_support", f64x2, u64x2, f64, u64, 64 - 52 }
#[cfg(feature = "simd_support")]
uniform_float_impl! { feature = "simd_support", f64x4, u64x4, f64, u64, 64 - 52 }
#[cfg(feature = "simd_support")]
uniform_float_impl! { feature = "simd_support", f64x8, u64x8, f64, u64, 64 - 52 }

#[cfg(test)]
mod tests {
    use super::*;
    use crate::distr::{utils::FloatSIMDScalarUtils, Uniform};
    use crate::test::{const_rng, step_rng};

    #[test]
    #[cfg_attr(miri, ignore)] // Miri is too slow
    fn test_floats() {
        let mut rng = crate::test::rng(252);
        let mut zero_rng = const_rng(0);
        let mut max_rng = const_rng(0xffff_ffff_ffff_ffff);
        macro_rules! t {
            ($ty:ty, $f_scalar:ident, $bits_shifted:expr) => {{
                let v: &[($f_scalar, $f_scalar)] = &[
                    (0.0, 100.0),
                    (-1e35, -1e25),
                    (1e-35, 1e-25),
                    (-1e35, 1e35),
                    (<$f_scalar>::from_bits(0), <$f_scalar>::from_bits(3)),
                    (-<$f_scalar>::from_bits(10), -<$f_scalar>::from_bits(1)),
                    (-<$f_scalar>::from_bits(5), 0.0),
                    (-<$f_scalar>::from_bits(7), -0.0),
                    (0.1 * $f_scalar::MAX, $f_scalar::MAX),
                    (-$f_scalar::MAX * 0.2, $f_scalar::MAX * 0.7),
                ];
                for &(low_scalar, high_scalar) in v.iter() {
                    for lane in 0..<$ty>::LEN {
                        let low = <$ty>::splat(0.0 as $f_scalar).replace(lane, low_scalar);
                        let high = <$ty>::splat(1.0 as $f_scalar).replace(lane, high_scalar);
                        let my_uniform = Uniform::new(low, high).unwrap();
                        let my_incl_uniform = Uniform::new_inclusive(low, high).unwrap();
                        for _ in 0..100 {
                            let v = rng.sample(my_uniform).extract_lane(lane);
                            assert!(low_scalar <= v && v <= high_scalar);
                            let v = rng.sample(my_incl_uniform).extract_lane(lane);
                            assert!(low_scalar <= v && v <= high_scalar);
                            let v =
                                <$ty as SampleUniform>::Sampler::sample_single(low, high, &mut rng)
                                    .unwrap()
                                    .extract_lane(lane);
                            assert!(low_scalar <= v && v <= high_scalar);
                            let v = <$ty as SampleUniform>::Sampler::sample_single_inclusive(
                                low, high, &mut rng,
                            )
                            .unwrap()
                            .extract_lane(lane);
                            assert!(low_scalar <= v && v <= high_scalar);
                        }

                        assert_eq!(
                            rng.sample(Uniform::new_inclusive(low, low).unwrap())
                                .extract_lane(lane),
                            low_scalar
                        );

                        assert_eq!(zero_rng.sample(my_uniform).extract_lane(lane), low_scalar);
                        assert_eq!(
                            zero_rng.sample(my_incl_uniform).extract_lane(lane),
                            low_scalar
                        );
                        assert_eq!(
                            <$ty as SampleUniform>::Sampler::sample_single(
                                low,
                                high,
                                &mut zero_rng
                            )
                            .unwrap()
                            .extract_lane(lane),
                            low_scalar
                        );
                        assert_eq!(
                            <$ty as SampleUniform>::Sampler::sample_single_inclusive(
                                low,
                                high,
                                &mut zero_rng
                            )
                            .unwrap()
                            .extract_lane(lane),
                            low_scalar
                        );

                        assert!(max_rng.sample(my_uniform).extract_lane(lane) <= high_scalar);
                        assert!(max_rng.sample(my_incl_uniform).extract_lane(lane) <= high_scalar);
                        // sample_single cannot cope with max_rng:
                        // assert!(<$ty as SampleUniform>::Sampler
                        //     ::sample_single(low, high, &mut max_rng).unwrap()
                        //     .extract(lane) <= high_scalar);
                        assert!(
                            <$ty as SampleUniform>::Sampler::sample_single_inclusive(
                                low,
                                high,
                                &mut max_rng
                            )
                            .unwrap()
                            .extract_lane(lane)
                                <= high_scalar
                        );

                        // Don't run this test for really tiny differences between high and low
                        // since for those rounding might result in selecting high for a very
                        // long time.
                        if (high_scalar - low_scalar) > 0.0001 {
                            let mut lowering_max_rng =
                                step_rng(0xffff_ffff_ffff_ffff, (-1i64 << $bits_shifted) as u64);
                            assert!(
                                <$ty as SampleUniform>::Sampler::sample_single(
                                    low,
                                    high,
                                    &mut lowering_max_rng
                                )
                                .unwrap()
                                .extract_lane(lane)
                                    <= high_scalar
                            );
                        }
                    }
                }

                assert_eq!(
                    rng.sample(Uniform::new_inclusive($f_scalar::MAX, $f_scalar::MAX).unwrap()),
                    $f_scalar::MAX
                );
                assert_eq!(
                    rng.sample(Uniform::new_inclusive(-$f_scalar::MAX, -$f_scalar::MAX).unwrap()),
                    -$f_scalar::MAX
                );
            }};
        }

        t!(f32, f32, 32 - 23);
        t!(f64, f64, 64 - 52);
        #[cfg(feature = "simd_support")]
        {
            t!(f32x2, f32, 32 - 23);
            t!(f32x4, f32, 32 - 23);
            t!(f32x8, f32, 32 - 23);
            t!(f32x16, f32, 32 - 23);
            t!(f64x2, f64, 64 - 52);
            t!(f64x4, f64, 64 - 52);
            t!(f64x8, f64, 64 - 52);
        }
    }

    #[test]
    fn test_float_overflow() {
        assert_eq!(Uniform::try_from(f64::MIN..f64::MAX), Err(Error::NonFinite));
    }

    #[test]
    #[should_panic]
    fn test_float_overflow_single() {
        let mut rng = crate::test::rng(252);
        rng.random_range(f64::MIN..f64::MAX);
    }

    #[test]
    #[cfg(all(feature = "std", panic = "unwind"))]
    fn test_float_assertions() {
        use super::SampleUniform;
        fn range<T: SampleUniform>(low: T, high: T) -> Result<T, Error> {
            let mut rng = crate::test::rng(253);
            T::Sampler::sample_single(low, high, &mut rng)
        }

        macro_rules! t {
            ($ty:ident, $f_scalar:ident) => {{
                let v: &[($f_scalar, $f_scalar)] = &[
                    ($f_scalar::NAN, 0.0),
                    (1.0, $f_scalar::NAN),
                    ($f_scalar::NAN, $f_scalar::NAN),
                    (1.0, 0.5),
                    ($f_scalar::MAX, -$f_scalar::MAX),
                    ($f_scalar::INFINITY, $f_scalar::INFINITY),
                    ($f_scalar::NEG_INFINITY, $f_scalar::NEG_INFINITY),
                    ($f_scalar::NEG_INFINITY, 5.0),
                    (5.0, $f_scalar::INFINITY),
                    ($f_scalar::NAN, $f_scalar::INFINITY),
                    ($f_scalar::NEG_INFINITY, $f_scalar::NAN),
                    ($f_scalar::NEG_INFINITY, $f_scalar::INFINITY),
                ];
                for &(low_scalar, high_scalar) in v.iter() {
                    for lane in 0..<$ty>::LEN {
                        let low = <$ty>::splat(0.0 as $f_scalar).replace(lane, low_scalar);
                        let high = <$ty>::splat(1.0 as $f_scalar).replace(lane, high_scalar);
                        assert!(range(low, high).is_err());
                        assert!(Uniform::new(low, high).is_err());
                        assert!(Uniform::new_inclusive(low, high).is_err());
                        assert!(Uniform::new(low, low).is_err());
                    }
                }
            }};
        }

        t!(f32, f32);
        t!(f64, f64);
        #[cfg(feature = "simd_support")]
        {
            t!(f32x2, f32);
            t!(f32x4, f32);
            t!(f32x8, f32);
            t!(f32x16, f32);
            t!(f64x2, f64);
            t!(f64x4, f64);
            t!(f64x8, f64);
        }
    }

    #[test]
    fn test_uniform_from_std_range() {
        let r = Uniform::try_from(2.0f64..7.0).unwrap();
        assert_eq!(r.0.low, 2.0);
        assert_eq!(r.0.scale, 5.0);
    }

    #[test]
    fn test_uniform_from_std_range_bad_limits() {
        #![allow(clippy::reversed_empty_ranges)]
        assert!(Uniform::try_from(100.0..10.0).is_err());
        assert!(Uniform::try_from(100.0..100.0).is_err());
    }

    #[test]
    fn test_uniform_from_std_range_inclusive() {
        let r = Uniform::try_from(2.0f64..=7.0).unwrap();
        assert_eq!(r.0.low, 2.0);
        assert!(r.0.scale > 5.0);
        assert!(r.0.scale < 5.0 + 1e-14);
    }

    #[test]
    fn test_uniform_from_std_range_inclusive_bad_limits() {
        #![allow(clippy::reversed_empty_ranges)]
        assert!(Uniform::try_from(100.0..=10.0).is_err());
        assert!(Uniform::try_from(100.0..=99.0).is_err());
    }
}
