// Copyright 2018 Developers of the Rand project.
//
// Licensed under the Apache License, Version 2.0 <LICENSE-APACHE or
// https://www.apache.org/licenses/LICENSE-2.0> or the MIT license
// <LICENSE-MIT or https://opensource.org/licenses/MIT>, at your
// option. This file may not be copied, modified, or distributed
// except according to those terms.

//! Convenience re-export of common members
//!
//! Like the standard library's prelude, this module simplifies importing of
//! common items. Unlike the standard prelude, the contents of this module must
//! be imported manually:
//!
//! ```
//! use rand::prelude::*;
//! # let mut r = StdRng::from_rng(&mut rand::rng());
//! # let _: f32 = r.random();
//! ```

#[doc(no_inline)]
pub use crate::distr::Distribution;
#[cfg(feature = "small_rng")]
#[doc(no_inline)]
pub use crate::rngs::SmallRng;
#[cfg(feature = "std_rng")]
#[doc(no_inline)]
pub use crate::rngs::StdRng;
#[doc(no_inline)]
#[cfg(feature = "thread_rng")]
pub use crate::rngs::ThreadRng;
#[doc(no_inline)]
pub use crate::seq::{IndexedMutRandom, IndexedRandom, IteratorRandom, SliceRandom};
#[doc(no_inline)]
pub use crate::{CryptoRng, Rng, RngCore, SeedableRng};
