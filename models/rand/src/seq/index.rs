// Copyright 2018 Developers of the Rand project.
//
// Licensed under the Apache License, Version 2.0 <LICENSE-APACHE or
// https://www.apache.org/licenses/LICENSE-2.0> or the MIT license
// <LICENSE-MIT or https://opensource.org/licenses/MIT>, at your
// option. This file may not be copied, modified, or distributed
// except according to those terms.

//! Low-level API for sampling indices
use alloc::vec::{self, Vec};
use core::slice;
use core::{hash::Hash, ops::AddAssign};
// BTreeMap is not as fast in tests, but better than nothing.
#[cfg(feature = "std")]
use super::WeightError;
use crate::distr::uniform::SampleUniform;
use crate::distr::{Distribution, Uniform};
use crate::Rng;
#[cfg(not(feature = "std"))]
use alloc::collections::BTreeSet;
#[cfg(feature = "serde")]
use serde::{Deserialize, Serialize};
#[cfg(feature = "std")]
use std::collections::HashSet;

#[cfg(not(any(target_pointer_width = "32", target_pointer_width = "64")))]
compile_error!("unsupported pointer width");

/// A vector of indices.
///
/// Multiple internal representations are possible.
#[derive(Clone, Debug)]
#[cfg_attr(feature = "serde", derive(Serialize, Deserialize))]
pub enum IndexVec {
    #[doc(hidden)]
    U32(Vec<u32>),
    #[cfg(target_pointer_width = "64")]
    #[doc(hidden)]
    U64(Vec<u64>),
}

impl IndexVec {
    /// Returns the number of indices
    #[inline]
    pub fn len(&self) -> usize {
        match self {
            IndexVec::U32(v) => v.len(),
            #[cfg(target_pointer_width = "64")]
            IndexVec::U64(v) => v.len(),
        }
    }

    /// Returns `true` if the length is 0.
    #[inline]
    pub fn is_empty(&self) -> bool {
        match self {
            IndexVec::U32(v) => v.is_empty(),
            #[cfg(target_pointer_width = "64")]
            IndexVec::U64(v) => v.is_empty(),
        }
    }

    /// Return the value at the given `index`.
    ///
    /// (Note: we cannot implement [`std::ops::Index`] because of lifetime
    /// restrictions.)
    #[inline]
    pub fn index(&self, index: usize) -> usize {
        match self {
            IndexVec::U32(v) => v[index] as usize,
            #[cfg(target_pointer_width = "64")]
            IndexVec::U64(v) => v[index] as usize,
        }
    }

    /// Return result as a `Vec<usize>`. Conversion may or may not be trivial.
    #[inline]
    pub fn into_vec(self) -> Vec<usize> {
        match self {
            IndexVec::U32(v) => v.into_iter().map(|i| i as usize).collect(),
            #[cfg(target_pointer_width = "64")]
            IndexVec::U64(v) => v.into_iter().map(|i| i as usize).collect(),
        }
    }

    /// Iterate over the indices as a sequence of `usize` values
    #[inline]
    pub fn iter(&self) -> IndexVecIter<'_> {
        match self {
            IndexVec::U32(v) => IndexVecIter::U32(v.iter()),
            #[cfg(target_pointer_width = "64")]
            IndexVec::U64(v) => IndexVecIter::U64(v.iter()),
        }
    }
}

impl IntoIterator for IndexVec {
    type IntoIter = IndexVecIntoIter;
    type Item = usize;

    /// Convert into an iterator over the indices as a sequence of `usize` values
    #[inline]
    fn into_iter(self) -> IndexVecIntoIter {
        match self {
            IndexVec::U32(v) => IndexVecIntoIter::U32(v.into_iter()),
            #[cfg(target_pointer_width = "64")]
            IndexVec::U64(v) => IndexVecIntoIter::U64(v.into_iter()),
        }
    }
}

impl PartialEq for IndexVec {
    fn eq(&self, other: &IndexVec) -> bool {
        use self::IndexVec::*;
        match (self, other) {
            (U32(v1), U32(v2)) => v1 == v2,
            #[cfg(target_pointer_width = "64")]
            (U64(v1), U64(v2)) => v1 == v2,
            #[cfg(target_pointer_width = "64")]
            (U32(v1), U64(v2)) => {
                (v1.len() == v2.len()) && (v1.iter().zip(v2.iter()).all(|(x, y)| *x as u64 == *y))
            }
            #[cfg(target_pointer_width = "64")]
            (U64(v1), U32(v2)) => {
                (v1.len() == v2.len()) && (v1.iter().zip(v2.iter()).all(|(x, y)| *x == *y as u64))
            }
        }
    }
}

impl From<Vec<u32>> for IndexVec {
    #[inline]
    fn from(v: Vec<u32>) -> Self {
        IndexVec::U32(v)
    }
}

#[cfg(target_pointer_width = "64")]
impl From<Vec<u64>> for IndexVec {
    #[inline]
    fn from(v: Vec<u64>) -> Self {
        IndexVec::U64(v)
    }
}

/// Return type of `IndexVec::iter`.
#[derive(Debug)]
pub enum IndexVecIter<'a> {
    #[doc(hidden)]
    U32(slice::Iter<'a, u32>),
    #[cfg(target_pointer_width = "64")]
    #[doc(hidden)]
    U64(slice::Iter<'a, u64>),
}

impl Iterator for IndexVecIter<'_> {
    type Item = usize;

    #[inline]
    fn next(&mut self) -> Option<usize> {
        use self::IndexVecIter::*;
        match self {
            U32(iter) => iter.next().map(|i| *i as usize),
            #[cfg(target_pointer_width = "64")]
            U64(iter) => iter.next().map(|i| *i as usize),
        }
    }

    #[inline]
    fn size_hint(&self) -> (usize, Option<usize>) {
        match self {
            IndexVecIter::U32(v) => v.size_hint(),
            #[cfg(target_pointer_width = "64")]
            IndexVecIter::U64(v) => v.size_hint(),
        }
    }
}

impl ExactSizeIterator for IndexVecIter<'_> {}

/// Return type of `IndexVec::into_iter`.
#[derive(Clone, Debug)]
pub enum IndexVecIntoIter {
    #[doc(hidden)]
    U32(vec::IntoIter<u32>),
    #[cfg(target_pointer_width = "64")]
    #[doc(hidden)]
    U64(vec::IntoIter<u64>),
}

impl Iterator for IndexVecIntoIter {
    type Item = usize;

    #[inline]
    fn next(&mut self) -> Option<Self::Item> {
        use self::IndexVecIntoIter::*;
        match self {
            U32(v) => v.next().map(|i| i as usize),
            #[cfg(target_pointer_width = "64")]
            U64(v) => v.next().map(|i| i as usize),
        }
    }

    #[inline]
    fn size_hint(&self) -> (usize, Option<usize>) {
        use self::IndexVecIntoIter::*;
        match self {
            U32(v) => v.size_hint(),
            #[cfg(target_pointer_width = "64")]
            U64(v) => v.size_hint(),
        }
    }
}

impl ExactSizeIterator for IndexVecIntoIter {}

/// Randomly sample exactly `amount` distinct indices from `0..length`, and
/// return them in random order (fully shuffled).
///
/// This method is used internally by the slice sampling methods, but it can
/// sometimes be useful to have the indices themselves so this is provided as
/// an alternative.
///
/// The implementation used is not specified; we automatically select the
/// fastest available algorithm for the `length` and `amount` parameters
/// (based on detailed profiling on an Intel Haswell CPU). Roughly speaking,
/// complexity is `O(amount)`, except that when `amount` is small, performance
/// is closer to `O(amount^2)`, and when `length` is close to `amount` then
/// `O(length)`.
///
/// Note that performance is significantly better over `u32` indices than over
/// `u64` indices. Because of this we hide the underlying type behind an
/// abstraction, `IndexVec`.
///
/// If an allocation-free `no_std` function is required, it is suggested
/// to adapt the internal `sample_floyd` implementation.
///
/// Panics if `amount > length`.
#[track_caller]
pub fn sample<R>(rng: &mut R, length: usize, amount: usize) -> IndexVec
where
    R: Rng + ?Sized,
{
    if amount > length {
        panic!("`amount` of samples must be less than or equal to `length`");
    }
    if length > (u32::MAX as usize) {
        #[cfg(target_pointer_width = "32")]
        unreachable!();

        // We never want to use inplace here, but could use floyd's alg
        // Lazy version: always use the cache alg.
        #[cfg(target_pointer_width = "64")]
        return sample_rejection(rng, length as u64, amount as u64);
    }
    let amount = amount as u32;
    let length = length as u32;

    // Choice of algorithm here depends on both length and amount. See:
    // https://github.com/rust-random/rand/pull/479
    // We do some calculations with f32. Accuracy is not very important.

    if amount < 163 {
        const C: [[f32; 2]; 2] = [[1.6, 8.0 / 45.0], [10.0, 70.0 / 9.0]];
        let j = usize::from(length >= 500_000);
        let amount_fp = amount as f32;
        let m4 = C[0][j] * amount_fp;
        // Short-cut: when amount < 12, floyd's is always faster
        if amount > 11 && (length as f32) < (C[1][j] + m4) * amount_fp {
            sample_inplace(rng, length, amount)
        } else {
            sample_floyd(rng, length, amount)
        }
    } else {
        const C: [f32; 2] = [270.0, 330.0 / 9.0];
        let j = usize::from(length >= 500_000);
        if (length as f32) < C[j] * (amount as f32) {
            sample_inplace(rng, length, amount)
        } else {
            sample_rejection(rng, length, amount)
        }
    }
}

/// Randomly sample `amount` distinct indices from `0..length`
///
/// The result may contain less than `amount` indices if insufficient non-zero
/// weights are available. Results are returned in an arbitrary order (there is
/// no guarantee of shuffling or ordering).
///
/// Function `weight` is called once for each index to provide weights.
///
/// This method is used internally by the slice sampling methods, but it can
/// sometimes be useful to have the indices themselves so this is provided as
/// an alternative.
///
/// Error cases:
/// -   [`WeightError::InvalidWeight`] when a weight is not-a-number or negative.
///
/// This implementation uses `O(length + amount)` space and `O(length)` time.
#[cfg(feature = "std")]
pub fn sample_weighted<R, F, X>(
    rng: &mut R,
    length: usize,
    weight: F,
    amount: usize,
) -> Result<IndexVec, WeightError>
where
    R: Rng + ?Sized,
    F: Fn(usize) -> X,
    X: Into<f64>,
{
    if length > (u32::MAX as usize) {
        #[cfg(target_pointer_width = "32")]
        unreachable!();

        #[cfg(target_pointer_width = "64")]
        {
            let amount = amount as u64;
            let length = length as u64;
            sample_efraimidis_spirakis(rng, length, weight, amount)
        }
    } else {
        assert!(amount <= u32::MAX as usize);
        let amount = amount as u32;
        let length = length as u32;
        sample_efraimidis_spirakis(rng, length, weight, amount)
    }
}

/// Randomly sample `amount` distinct indices from `0..length`
///
/// The result may contain less than `amount` indices if insufficient non-zero
/// weights are available. Results are returned in an arbitrary order (there is
/// no guarantee of shuffling or ordering).
///
/// Function `weight` is called once for each index to provide weights.
///
/// This implementation is based on the algorithm A-ExpJ as found in
/// [Efraimidis and Spirakis, 2005](https://doi.org/10.1016/j.ipl.2005.11.003).
/// It uses `O(length + amount)` space and `O(length)` time.
///
/// Error cases:
/// -   [`WeightError::InvalidWeight`] when a weight is not-a-number or negative.
#[cfg(feature = "std")]
fn sample_efraimidis_spirakis<R, F, X, N>(
    rng: &mut R,
    length: N,
    weight: F,
    amount: N,
) -> Result<IndexVec, WeightError>
where
    R: Rng + ?Sized,
    F: Fn(usize) -> X,
    X: Into<f64>,
    N: UInt,
    IndexVec: From<Vec<N>>,
{
    use std::{cmp::Ordering, collections::BinaryHeap};

    if amount == N::zero() {
        return Ok(IndexVec::U32(Vec::new()));
    }

    struct Element<N> {
        index: N,
        key: f64,
    }

    impl<N> PartialOrd for Element<N> {
        fn partial_cmp(&self, other: &Self) -> Option<Ordering> {
            Some(self.cmp(other))
        }
    }

    impl<N> Ord for Element<N> {
        fn cmp(&self, other: &Self) -> Ordering {
            // unwrap() should not panic since weights should not be NaN
            // We reverse so that BinaryHeap::peek shows the smallest item
            self.key.partial_cmp(&other.key).unwrap().reverse()
        }
    }

    impl<N> PartialEq for Element<N> {
        fn eq(&self, other: &Self) -> bool {
            self.key == other.key
        }
    }

    impl<N> Eq for Element<N> {}

    let mut candidates = BinaryHeap::with_capacity(amount.as_usize());
    let mut index = N::zero();
    while index < length && candidates.len() < amount.as_usize() {
        let weight = weight(index.as_usize()).into();
        if weight > 0.0 {
            // We use the log of the key used in A-ExpJ to improve precision
            // for small weights:
            let key = rng.random::<f64>().ln() / weight;
            candidates.push(Element { index, key });
        } else if !(weight >= 0.0) {
            return Err(WeightError::InvalidWeight);
        }

        index += N::one();
    }

    if index < length {
        let mut x = rng.random::<f64>().ln() / candidates.peek().unwrap().key;
        while index < length {
            let weight = weight(index.as_usize()).into();
            if weight > 0.0 {
                x -= weight;
                if x <= 0.0 {
                    let min_candidate = candidates.pop().unwrap();
                    let t = (min_candidate.key * weight).exp();
                    let key = rng.random_range(t..1.0).ln() / weight;
                    candidates.push(Element { index, key });

                    x = rng.random::<f64>().ln() / candidates.peek().unwrap().key;
                }
            } else if !(weight >= 0.0) {
                return Err(WeightError::InvalidWeight);
            }

            index += N::one();
        }
    }

    Ok(IndexVec::from(
        candidates.iter().map(|elt| elt.index).collect(),
    ))
}

/// Randomly sample exactly `amount` indices from `0..length`, using Floyd's
/// combination algorithm.
///
/// The output values are fully shuffled. (Overhead is under 50%.)
///
/// This implementation uses `O(amount)` memory and `O(amount^2)` time.
fn sample_floyd<R>(rng: &mut R, length: u32, amount: u32) -> IndexVec
where
    R: Rng + ?Sized,
{
    // Note that the values returned by `rng.random_range()` can be
    // inferred from the returned vector by working backwards from
    // the last entry. This bijection proves the algorithm fair.
    debug_assert!(amount <= length);
    let mut indices = Vec::with_capacity(amount as usize);
    for j in length - amount..length {
        let t = rng.random_range(..=j);
        if let Some(pos) = indices.iter().position(|&x| x == t) {
            indices[pos] = j;
        }
        indices.push(t);
    }
    IndexVec::from(indices)
}

/// Randomly sample exactly `amount` indices from `0..length`, using an inplace
/// partial Fisher-Yates method.
/// Sample an amount of indices using an inplace partial fisher yates method.
///
/// This allocates the entire `length` of indices and randomizes only the first `amount`.
/// It then truncates to `amount` and returns.
///
/// This method is not appropriate for large `length` and potentially uses a lot
/// of memory; because of this we only implement for `u32` index (which improves
/// performance in all cases).
///
/// Set-up is `O(length)` time and memory and shuffling is `O(amount)` time.
fn sample_inplace<R>(rng: &mut R, length: u32, amount: u32) -> IndexVec
where
    R: Rng + ?Sized,
{
    debug_assert!(amount <= length);
    let mut indices: Vec<u32> = Vec::with_capacity(length as usize);
    indices.extend(0..length);
    for i in 0..amount {
        let j: u32 = rng.random_range(i..length);
        indices.swap(i as usize, j as usize);
    }
    indices.truncate(amount as usize);
    debug_assert_eq!(indices.len(), amount as usize);
    IndexVec::from(indices)
}

trait UInt: Copy + PartialOrd + Ord + PartialEq + Eq + SampleUniform + Hash + AddAssign {
    fn zero() -> Self;
    #[cfg_attr(feature = "alloc", allow(dead_code))]
    fn one() -> Self;
    fn as_usize(self) -> usize;
}

impl UInt for u32 {
    #[inline]
    fn zero() -> Self {
        0
    }

    #[inline]
    fn one() -> Self {
        1
    }

    #[inline]
    fn as_usize(self) -> usize {
        self as usize
    }
}

#[cfg(target_pointer_width = "64")]
impl UInt for u64 {
    #[inline]
    fn zero() -> Self {
        0
    }

    #[inline]
    fn one() -> Self {
        1
    }

    #[inline]
    fn as_usize(self) -> usize {
        self as usize
    }
}

/// Randomly sample exactly `amount` indices from `0..length`, using rejection
/// sampling.
///
/// Since `amount <<< length` there is a low chance of a random sample in
/// `0..length` being a duplicate. We test for duplicates and resample where
/// necessary. The algorithm is `O(amount)` time and memory.
///
/// This function  is generic over X primarily so that results are value-stable
/// over 32-bit and 64-bit platforms.
fn sample_rejection<X: UInt, R>(rng: &mut R, length: X, amount: X) -> IndexVec
where
    R: Rng + ?Sized,
    IndexVec: From<Vec<X>>,
{
    debug_assert!(amount < length);
    #[cfg(feature = "std")]
    let mut cache = HashSet::with_capacity(amount.as_usize());
    #[cfg(not(feature = "std"))]
    let mut cache = BTreeSet::new();
    let distr = Uniform::new(X::zero(), length).unwrap();
    let mut indices = Vec::with_capacity(amount.as_usize());
    for _ in 0..amount.as_usize() {
        let mut pos = distr.sample(rng);
        while !cache.insert(pos) {
            pos = distr.sample(rng);
        }
        indices.push(pos);
    }

    debug_assert_eq!(indices.len(), amount.as_usize());
    IndexVec::from(indices)
}

#[cfg(test)]
mod test {
    use super::*;
    use alloc::vec;

    #[test]
    #[cfg(feature = "serde")]
    fn test_serialization_index_vec() {
        let some_index_vec = IndexVec::from(vec![254_u32, 234, 2, 1]);
        let de_some_index_vec: IndexVec =
            bincode::deserialize(&bincode::serialize(&some_index_vec).unwrap()).unwrap();
        assert_eq!(some_index_vec, de_some_index_vec);
    }

    #[test]
    fn test_sample_boundaries() {
        let mut r = crate::test::rng(404);

        assert_eq!(sample_inplace(&mut r, 0, 0).len(), 0);
        assert_eq!(sample_inplace(&mut r, 1, 0).len(), 0);
        assert_eq!(sample_inplace(&mut r, 1, 1).into_vec(), vec![0]);

        assert_eq!(sample_rejection(&mut r, 1u32, 0).len(), 0);

        assert_eq!(sample_floyd(&mut r, 0, 0).len(), 0);
        assert_eq!(sample_floyd(&mut r, 1, 0).len(), 0);
        assert_eq!(sample_floyd(&mut r, 1, 1).into_vec(), vec![0]);

        // These algorithms should be fast with big numbers. Test average.
        let sum: usize = sample_rejection(&mut r, 1 << 25, 10u32).into_iter().sum();
        assert!(1 << 25 < sum && sum < (1 << 25) * 25);

        let sum: usize = sample_floyd(&mut r, 1 << 25, 10).into_iter().sum();
        assert!(1 << 25 < sum && sum < (1 << 25) * 25);
    }

    #[test]
    #[cfg_attr(miri, ignore)] // Miri is too slow
    fn test_sample_alg() {
        let seed_rng = crate::test::rng;

        // We can't test which algorithm is used directly, but Floyd's alg
        // should produce different results from the others. (Also, `inplace`
        // and `cached` currently use different sizes thus produce different results.)

        // A small length and relatively large amount should use inplace
        let (length, amount): (usize, usize) = (100, 50);
        let v1 = sample(&mut seed_rng(420), length, amount);
        let v2 = sample_inplace(&mut seed_rng(420), length as u32, amount as u32);
        assert!(v1.iter().all(|e| e < length));
        assert_eq!(v1, v2);

        // Test Floyd's alg does produce different results
        let v3 = sample_floyd(&mut seed_rng(420), length as u32, amount as u32);
        assert!(v1 != v3);

        // A large length and small amount should use Floyd
        let (length, amount): (usize, usize) = (1 << 20, 50);
        let v1 = sample(&mut seed_rng(421), length, amount);
        let v2 = sample_floyd(&mut seed_rng(421), length as u32, amount as u32);
        assert!(v1.iter().all(|e| e < length));
        assert_eq!(v1, v2);

        // A large length and larger amount should use cache
        let (length, amount): (usize, usize) = (1 << 20, 600);
        let v1 = sample(&mut seed_rng(422), length, amount);
        let v2 = sample_rejection(&mut seed_rng(422), length as u32, amount as u32);
        assert!(v1.iter().all(|e| e < length));
        assert_eq!(v1, v2);
    }

    #[cfg(feature = "std")]
    #[test]
    fn test_sample_weighted() {
        let seed_rng = crate::test::rng;
        for &(amount, len) in &[(0, 10), (5, 10), (9, 10)] {
            let v = sample_weighted(&mut seed_rng(423), len, |i| i as f64, amount).unwrap();
            match v {
                IndexVec::U32(mut indices) => {
                    assert_eq!(indices.len(), amount);
                    indices.sort_unstable();
                    indices.dedup();
                    assert_eq!(indices.len(), amount);
                    for &i in &indices {
                        assert!((i as usize) < len);
                    }
                }
                #[cfg(target_pointer_width = "64")]
                _ => panic!("expected `IndexVec::U32`"),
            }
        }

        let r = sample_weighted(&mut seed_rng(423), 10, |i| i as f64, 10);
        assert_eq!(r.unwrap().len(), 9);
    }

    #[test]
    fn value_stability_sample() {
        let do_test = |length, amount, values: &[u32]| {
            let mut buf = [0u32; 8];
            let mut rng = crate::test::rng(410);

            let res = sample(&mut rng, length, amount);
            let len = res.len().min(buf.len());
            for (x, y) in res.into_iter().zip(buf.iter_mut()) {
                *y = x as u32;
            }
            assert_eq!(
                &buf[0..len],
                values,
                "failed sampling {}, {}",
                length,
                amount
            );
        };

        do_test(10, 6, &[0, 9, 5, 4, 6, 8]); // floyd
        do_test(25, 10, &[24, 20, 19, 9, 22, 16, 0, 14]); // floyd
        do_test(300, 8, &[30, 283, 243, 150, 218, 240, 1, 189]); // floyd
        do_test(300, 80, &[31, 289, 248, 154, 221, 243, 7, 192]); // inplace
        do_test(300, 180, &[31, 289, 248, 154, 221, 243, 7, 192]); // inplace

        do_test(
            1_000_000,
            8,
            &[103717, 963485, 826422, 509101, 736394, 807035, 5327, 632573],
        ); // floyd
        do_test(
            1_000_000,
            180,
            &[103718, 963490, 826426, 509103, 736396, 807036, 5327, 632573],
        ); // rejection
    }
}
