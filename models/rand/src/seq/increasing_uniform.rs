// Copyright 2018-2023 Developers of the Rand project.
//
// Licensed under the Apache License, Version 2.0 <LICENSE-APACHE or
// https://www.apache.org/licenses/LICENSE-2.0> or the MIT license
// <LICENSE-MIT or https://opensource.org/licenses/MIT>, at your
// option. This file may not be copied, modified, or distributed
// except according to those terms.

use crate::{Rng, RngCore};

/// Similar to a Uniform distribution,
/// but after returning a number in the range [0,n], n is increased by 1.
pub(crate) struct IncreasingUniform<R: RngCore> {
    pub rng: R,
    n: u32,
    // Chunk is a random number in [0, (n + 1) * (n + 2) *..* (n + chunk_remaining) )
    chunk: u32,
    chunk_remaining: u8,
}

impl<R: RngCore> IncreasingUniform<R> {
    /// Create a dice roller.
    /// The next item returned will be a random number in the range [0,n]
    pub fn new(rng: R, n: u32) -> Self {
        // If n = 0, the first number returned will always be 0
        // so we don't need to generate a random number
        let chunk_remaining = if n == 0 { 1 } else { 0 };
        Self {
            rng,
            n,
            chunk: 0,
            chunk_remaining,
        }
    }

    /// Returns a number in [0,n] and increments n by 1.
    /// Generates new random bits as needed
    /// Panics if `n >= u32::MAX`
    #[inline]
    pub fn next_index(&mut self) -> usize {
        let next_n = self.n + 1;

        // There's room for further optimisation here:
        // random_range uses rejection sampling (or other method; see #1196) to avoid bias.
        // When the initial sample is biased for range 0..bound
        // it may still be viable to use for a smaller bound
        // (especially if small biases are considered acceptable).

        let next_chunk_remaining = self.chunk_remaining.checked_sub(1).unwrap_or_else(|| {
            // If the chunk is empty, generate a new chunk
            let (bound, remaining) = calculate_bound_u32(next_n);
            // bound = (n + 1) * (n + 2) *..* (n + remaining)
            self.chunk = self.rng.random_range(..bound);
            // Chunk is a random number in
            // [0, (n + 1) * (n + 2) *..* (n + remaining) )

            remaining - 1
        });

        let result = if next_chunk_remaining == 0 {
            // `chunk` is a random number in the range [0..n+1)
            // Because `chunk_remaining` is about to be set to zero
            // we do not need to clear the chunk here
            self.chunk as usize
        } else {
            // `chunk` is a random number in a range that is a multiple of n+1
            // so r will be a random number in [0..n+1)
            let r = self.chunk % next_n;
            self.chunk /= next_n;
            r as usize
        };

        self.chunk_remaining = next_chunk_remaining;
        self.n = next_n;
        result
    }
}

#[inline]
/// Calculates `bound`, `count` such that bound (m)*(m+1)*..*(m + remaining - 1)
fn calculate_bound_u32(m: u32) -> (u32, u8) {
    debug_assert!(m > 0);
    #[inline]
    const fn inner(m: u32) -> (u32, u8) {
        let mut product = m;
        let mut current = m + 1;

        loop {
            if let Some(p) = u32::checked_mul(product, current) {
                product = p;
                current += 1;
            } else {
                // Count has a maximum value of 13 for when min is 1 or 2
                let count = (current - m) as u8;
                return (product, count);
            }
        }
    }

    const RESULT2: (u32, u8) = inner(2);
    if m == 2 {
        // Making this value a constant instead of recalculating it
        // gives a significant (~50%) performance boost for small shuffles
        return RESULT2;
    }

    inner(m)
}
