// Copyright 2018-2023 Developers of the Rand project.
//
// Licensed under the Apache License, Version 2.0 <LICENSE-APACHE or
// https://www.apache.org/licenses/LICENSE-2.0> or the MIT license
// <LICENSE-MIT or https://opensource.org/licenses/MIT>, at your
// option. This file may not be copied, modified, or distributed
// except according to those terms.

//! Sequence-related functionality
//!
//! This module provides:
//!
//! *   [`IndexedRandom`] for sampling slices and other indexable lists
//! *   [`IndexedMutRandom`] for sampling slices and other mutably indexable lists
//! *   [`SliceRandom`] for mutating slices
//! *   [`IteratorRandom`] for sampling iterators
//! *   [`index::sample`] low-level API to choose multiple indices from
//!     `0..length`
//!
//! Also see:
//!
//! *   [`crate::distr::weighted::WeightedIndex`] distribution which provides
//!     weighted index sampling.
//!
//! In order to make results reproducible across 32-64 bit architectures, all
//! `usize` indices are sampled as a `u32` where possible (also providing a
//! small performance boost in some cases).

mod coin_flipper;
mod increasing_uniform;
mod iterator;
mod slice;

#[cfg(feature = "alloc")]
#[path = "index.rs"]
mod index_;

#[cfg(feature = "alloc")]
#[doc(no_inline)]
pub use crate::distr::weighted::Error as WeightError;
pub use iterator::IteratorRandom;
#[cfg(feature = "alloc")]
pub use slice::SliceChooseIter;
pub use slice::{IndexedMutRandom, IndexedRandom, SliceRandom};

/// Low-level API for sampling indices
pub mod index {
    use crate::Rng;

    #[cfg(feature = "alloc")]
    #[doc(inline)]
    pub use super::index_::*;

    /// Randomly sample exactly `N` distinct indices from `0..len`, and
    /// return them in random order (fully shuffled).
    ///
    /// This is implemented via Floyd's algorithm. Time complexity is `O(N^2)`
    /// and memory complexity is `O(N)`.
    ///
    /// Returns `None` if (and only if) `N > len`.
    pub fn sample_array<R, const N: usize>(rng: &mut R, len: usize) -> Option<[usize; N]>
    where
        R: Rng + ?Sized,
    {
        if N > len {
            return None;
        }

        // Floyd's algorithm
        let mut indices = [0; N];
        for (i, j) in (len - N..len).enumerate() {
            let t = rng.random_range(..j + 1);
            if let Some(pos) = indices[0..i].iter().position(|&x| x == t) {
                indices[pos] = j;
            }
            indices[i] = t;
        }
        Some(indices)
    }
}
