// Copyright 2018-2023 Developers of the Rand project.
//
// Licensed under the Apache License, Version 2.0 <LICENSE-APACHE or
// https://www.apache.org/licenses/LICENSE-2.0> or the MIT license
// <LICENSE-MIT or https://opensource.org/licenses/MIT>, at your
// option. This file may not be copied, modified, or distributed
// except according to those terms.

//! `IndexedRandom`, `IndexedMutRandom`, `SliceRandom`

use super::increasing_uniform::IncreasingUniform;
use super::index;
#[cfg(feature = "alloc")]
use crate::distr::uniform::{SampleBorrow, SampleUniform};
#[cfg(feature = "alloc")]
use crate::distr::weighted::{Error as WeightError, Weight};
use crate::Rng;
use core::ops::{Index, IndexMut};

/// Extension trait on indexable lists, providing random sampling methods.
///
/// This trait is implemented on `[T]` slice types. Other types supporting
/// [`std::ops::Index<usize>`] may implement this (only [`Self::len`] must be
/// specified).
pub trait IndexedRandom: Index<usize> {
    /// The length
    fn len(&self) -> usize;

    /// True when the length is zero
    #[inline]
    fn is_empty(&self) -> bool {
        self.len() == 0
    }

    /// Uniformly sample one element
    ///
    /// Returns a reference to one uniformly-sampled random element of
    /// the slice, or `None` if the slice is empty.
    ///
    /// For slices, complexity is `O(1)`.
    ///
    /// # Example
    ///
    /// ```
    /// use rand::seq::IndexedRandom;
    ///
    /// let choices = [1, 2, 4, 8, 16, 32];
    /// let mut rng = rand::rng();
    /// println!("{:?}", choices.choose(&mut rng));
    /// assert_eq!(choices[..0].choose(&mut rng), None);
    /// ```
    fn choose<R>(&self, rng: &mut R) -> Option<&Self::Output>
    where
        R: Rng + ?Sized,
    {
        if self.is_empty() {
            None
        } else {
            Some(&self[rng.random_range(..self.len())])
        }
    }

    /// Uniformly sample `amount` distinct elements from self
    ///
    /// Chooses `amount` elements from the slice at random, without repetition,
    /// and in random order. The returned iterator is appropriate both for
    /// collection into a `Vec` and filling an existing buffer (see example).
    ///
    /// In case this API is not sufficiently flexible, use [`index::sample`].
    ///
    /// For slices, complexity is the same as [`index::sample`].
    ///
    /// # Example
    /// ```
    /// use rand::seq::IndexedRandom;
    ///
    /// let mut rng = &mut rand::rng();
    /// let sample = "Hello, audience!".as_bytes();
    ///
    /// // collect the results into a vector:
    /// let v: Vec<u8> = sample.choose_multiple(&mut rng, 3).cloned().collect();
    ///
    /// // store in a buffer:
    /// let mut buf = [0u8; 5];
    /// for (b, slot) in sample.choose_multiple(&mut rng, buf.len()).zip(buf.iter_mut()) {
    ///     *slot = *b;
    /// }
    /// ```
    #[cfg(feature = "alloc")]
    fn choose_multiple<R>(
        &self,
        rng: &mut R,
        amount: usize,
    ) -> SliceChooseIter<'_, Self, Self::Output>
    where
        Self::Output: Sized,
        R: Rng + ?Sized,
    {
        let amount = core::cmp::min(amount, self.len());
        SliceChooseIter {
            slice: self,
            _phantom: Default::default(),
            indices: index::sample(rng, self.len(), amount).into_iter(),
        }
    }

    /// Uniformly sample a fixed-size array of distinct elements from self
    ///
    /// Chooses `N` elements from the slice at random, without repetition,
    /// and in random order.
    ///
    /// For slices, complexity is the same as [`index::sample_array`].
    ///
    /// # Example
    /// ```
    /// use rand::seq::IndexedRandom;
    ///
    /// let mut rng = &mut rand::rng();
    /// let sample = "Hello, audience!".as_bytes();
    ///
    /// let a: [u8; 3] = sample.choose_multiple_array(&mut rng).unwrap();
    /// ```
    fn choose_multiple_array<R, const N: usize>(&self, rng: &mut R) -> Option<[Self::Output; N]>
    where
        Self::Output: Clone + Sized,
        R: Rng + ?Sized,
    {
        let indices = index::sample_array(rng, self.len())?;
        Some(indices.map(|index| self[index].clone()))
    }

    /// Biased sampling for one element
    ///
    /// Returns a reference to one element of the slice, sampled according
    /// to the provided weights. Returns `None` only if the slice is empty.
    ///
    /// The specified function `weight` maps each item `x` to a relative
    /// likelihood `weight(x)`. The probability of each item being selected is
    /// therefore `weight(x) / s`, where `s` is the sum of all `weight(x)`.
    ///
    /// For slices of length `n`, complexity is `O(n)`.
    /// For more information about the underlying algorithm,
    /// see the [`WeightedIndex`] distribution.
    ///
    /// See also [`choose_weighted_mut`].
    ///
    /// # Example
    ///
    /// ```
    /// use rand::prelude::*;
    ///
    /// let choices = [('a', 2), ('b', 1), ('c', 1), ('d', 0)];
    /// let mut rng = rand::rng();
    /// // 50% chance to print 'a', 25% chance to print 'b', 25% chance to print 'c',
    /// // and 'd' will never be printed
    /// println!("{:?}", choices.choose_weighted(&mut rng, |item| item.1).unwrap().0);
    /// ```
    /// [`choose`]: IndexedRandom::choose
    /// [`choose_weighted_mut`]: IndexedMutRandom::choose_weighted_mut
    /// [`WeightedIndex`]: crate::distr::weighted::WeightedIndex
    #[cfg(feature = "alloc")]
    fn choose_weighted<R, F, B, X>(
        &self,
        rng: &mut R,
        weight: F,
    ) -> Result<&Self::Output, WeightError>
    where
        R: Rng + ?Sized,
        F: Fn(&Self::Output) -> B,
        B: SampleBorrow<X>,
        X: SampleUniform + Weight + PartialOrd<X>,
    {
        use crate::distr::{weighted::WeightedIndex, Distribution};
        let distr = WeightedIndex::new((0..self.len()).map(|idx| weight(&self[idx])))?;
        Ok(&self[distr.sample(rng)])
    }

    /// Biased sampling of `amount` distinct elements
    ///
    /// Similar to [`choose_multiple`], but where the likelihood of each
    /// element's inclusion in the output may be specified. Zero-weighted
    /// elements are never returned; the result may therefore contain fewer
    /// elements than `amount` even when `self.len() >= amount`. The elements
    /// are returned in an arbitrary, unspecified order.
    ///
    /// The specified function `weight` maps each item `x` to a relative
    /// likelihood `weight(x)`. The probability of each item being selected is
    /// therefore `weight(x) / s`, where `s` is the sum of all `weight(x)`.
    ///
    /// This implementation uses `O(length + amount)` space and `O(length)` time.
    /// See [`index::sample_weighted`] for details.
    ///
    /// # Example
    ///
    /// ```
    /// use rand::prelude::*;
    ///
    /// let choices = [('a', 2), ('b', 1), ('c', 1)];
    /// let mut rng = rand::rng();
    /// // First Draw * Second Draw = total odds
    /// // -----------------------
    /// // (50% * 50%) + (25% * 67%) = 41.7% chance that the output is `['a', 'b']` in some order.
    /// // (50% * 50%) + (25% * 67%) = 41.7% chance that the output is `['a', 'c']` in some order.
    /// // (25% * 33%) + (25% * 33%) = 16.6% chance that the output is `['b', 'c']` in some order.
    /// println!("{:?}", choices.choose_multiple_weighted(&mut rng, 2, |item| item.1).unwrap().collect::<Vec<_>>());
    /// ```
    /// [`choose_multiple`]: IndexedRandom::choose_multiple
    // Note: this is feature-gated on std due to usage of f64::powf.
    // If necessary, we may use alloc+libm as an alternative (see PR #1089).
    #[cfg(feature = "std")]
    fn choose_multiple_weighted<R, F, X>(
        &self,
        rng: &mut R,
        amount: usize,
        weight: F,
    ) -> Result<SliceChooseIter<'_, Self, Self::Output>, WeightError>
    where
        Self::Output: Sized,
        R: Rng + ?Sized,
        F: Fn(&Self::Output) -> X,
        X: Into<f64>,
    {
        let amount = core::cmp::min(amount, self.len());
        Ok(SliceChooseIter {
            slice: self,
            _phantom: Default::default(),
            indices: index::sample_weighted(
                rng,
                self.len(),
                |idx| weight(&self[idx]).into(),
                amount,
            )?
            .into_iter(),
        })
    }
}

/// Extension trait on indexable lists, providing random sampling methods.
///
/// This trait is implemented automatically for every type implementing
/// [`IndexedRandom`] and [`std::ops::IndexMut<usize>`].
pub trait IndexedMutRandom: IndexedRandom + IndexMut<usize> {
    /// Uniformly sample one element (mut)
    ///
    /// Returns a mutable reference to one uniformly-sampled random element of
    /// the slice, or `None` if the slice is empty.
    ///
    /// For slices, complexity is `O(1)`.
    fn choose_mut<R>(&mut self, rng: &mut R) -> Option<&mut Self::Output>
    where
        R: Rng + ?Sized,
    {
        if self.is_empty() {
            None
        } else {
            let len = self.len();
            Some(&mut self[rng.random_range(..len)])
        }
    }

    /// Biased sampling for one element (mut)
    ///
    /// Returns a mutable reference to one element of the slice, sampled according
    /// to the provided weights. Returns `None` only if the slice is empty.
    ///
    /// The specified function `weight` maps each item `x` to a relative
    /// likelihood `weight(x)`. The probability of each item being selected is
    /// therefore `weight(x) / s`, where `s` is the sum of all `weight(x)`.
    ///
    /// For slices of length `n`, complexity is `O(n)`.
    /// For more information about the underlying algorithm,
    /// see the [`WeightedIndex`] distribution.
    ///
    /// See also [`choose_weighted`].
    ///
    /// [`choose_mut`]: IndexedMutRandom::choose_mut
    /// [`choose_weighted`]: IndexedRandom::choose_weighted
    /// [`WeightedIndex`]: crate::distr::weighted::WeightedIndex
    #[cfg(feature = "alloc")]
    fn choose_weighted_mut<R, F, B, X>(
        &mut self,
        rng: &mut R,
        weight: F,
    ) -> Result<&mut Self::Output, WeightError>
    where
        R: Rng + ?Sized,
        F: Fn(&Self::Output) -> B,
        B: SampleBorrow<X>,
        X: SampleUniform + Weight + PartialOrd<X>,
    {
        use crate::distr::{weighted::WeightedIndex, Distribution};
        let distr = WeightedIndex::new((0..self.len()).map(|idx| weight(&self[idx])))?;
        let index = distr.sample(rng);
        Ok(&mut self[index])
    }
}

/// Extension trait on slices, providing shuffling methods.
///
/// This trait is implemented on all `[T]` slice types, providing several
/// methods for choosing and shuffling elements. You must `use` this trait:
///
/// ```
/// use rand::seq::SliceRandom;
///
/// let mut rng = rand::rng();
/// let mut bytes = "Hello, random!".to_string().into_bytes();
/// bytes.shuffle(&mut rng);
/// let str = String::from_utf8(bytes).unwrap();
/// println!("{}", str);
/// ```
/// Example output (non-deterministic):
/// ```none
/// l,nmroHado !le
/// ```
pub trait SliceRandom: IndexedMutRandom {
    /// Shuffle a mutable slice in place.
    ///
    /// For slices of length `n`, complexity is `O(n)`.
    /// The resulting permutation is picked uniformly from the set of all possible permutations.
    ///
    /// # Example
    ///
    /// ```
    /// use rand::seq::SliceRandom;
    ///
    /// let mut rng = rand::rng();
    /// let mut y = [1, 2, 3, 4, 5];
    /// println!("Unshuffled: {:?}", y);
    /// y.shuffle(&mut rng);
    /// println!("Shuffled:   {:?}", y);
    /// ```
    fn shuffle<R>(&mut self, rng: &mut R)
    where
        R: Rng + ?Sized;

    /// Shuffle a slice in place, but exit early.
    ///
    /// Returns two mutable slices from the source slice. The first contains
    /// `amount` elements randomly permuted. The second has the remaining
    /// elements that are not fully shuffled.
    ///
    /// This is an efficient method to select `amount` elements at random from
    /// the slice, provided the slice may be mutated.
    ///
    /// If you only need to choose elements randomly and `amount > self.len()/2`
    /// then you may improve performance by taking
    /// `amount = self.len() - amount` and using only the second slice.
    ///
    /// If `amount` is greater than the number of elements in the slice, this
    /// will perform a full shuffle.
    ///
    /// For slices, complexity is `O(m)` where `m = amount`.
    fn partial_shuffle<R>(
        &mut self,
        rng: &mut R,
        amount: usize,
    ) -> (&mut [Self::Output], &mut [Self::Output])
    where
        Self::Output: Sized,
        R: Rng + ?Sized;
}

impl<T> IndexedRandom for [T] {
    fn len(&self) -> usize {
        self.len()
    }
}

impl<IR: IndexedRandom + IndexMut<usize> + ?Sized> IndexedMutRandom for IR {}

impl<T> SliceRandom for [T] {
    fn shuffle<R>(&mut self, rng: &mut R)
    where
        R: Rng + ?Sized,
    {
        if self.len() <= 1 {
            // There is no need to shuffle an empty or single element slice
            return;
        }
        self.partial_shuffle(rng, self.len());
    }

    fn partial_shuffle<R>(&mut self, rng: &mut R, amount: usize) -> (&mut [T], &mut [T])
    where
        R: Rng + ?Sized,
    {
        let m = self.len().saturating_sub(amount);

        // The algorithm below is based on Durstenfeld's algorithm for the
        // [Fisher–Yates shuffle](https://en.wikipedia.org/wiki/Fisher%E2%80%93Yates_shuffle#The_modern_algorithm)
        // for an unbiased permutation.
        // It ensures that the last `amount` elements of the slice
        // are randomly selected from the whole slice.

        // `IncreasingUniform::next_index()` is faster than `Rng::random_range`
        // but only works for 32 bit integers
        // So we must use the slow method if the slice is longer than that.
        if self.len() < (u32::MAX as usize) {
            let mut chooser = IncreasingUniform::new(rng, m as u32);
            for i in m..self.len() {
                let index = chooser.next_index();
                self.swap(i, index);
            }
        } else {
            for i in m..self.len() {
                let index = rng.random_range(..i + 1);
                self.swap(i, index);
            }
        }
        let r = self.split_at_mut(m);
        (r.1, r.0)
    }
}

/// An iterator over multiple slice elements.
///
/// This struct is created by
/// [`IndexedRandom::choose_multiple`](trait.IndexedRandom.html#tymethod.choose_multiple).
#[cfg(feature = "alloc")]
#[derive(Debug)]
pub struct SliceChooseIter<'a, S: ?Sized + 'a, T: 'a> {
    slice: &'a S,
    _phantom: core::marker::PhantomData<T>,
    indices: index::IndexVecIntoIter,
}

#[cfg(feature = "alloc")]
impl<'a, S: Index<usize, Output = T> + ?Sized + 'a, T: 'a> Iterator for SliceChooseIter<'a, S, T> {
    type Item = &'a T;

    fn next(&mut self) -> Option<Self::Item> {
        // TODO: investigate using SliceIndex::get_unchecked when stable
        self.indices.next().map(|i| &self.slice[i])
    }

    fn size_hint(&self) -> (usize, Option<usize>) {
        (self.indices.len(), Some(self.indices.len()))
    }
}

#[cfg(feature = "alloc")]
impl<'a, S: Index<usize, Output = T> + ?Sized + 'a, T: 'a> ExactSizeIterator
    for SliceChooseIter<'a, S, T>
{
    fn len(&self) -> usize {
        self.indices.len()
    }
}

#[cfg(test)]
mod test {
    use super::*;
    #[cfg(feature = "alloc")]
    use alloc::vec::Vec;

    #[test]
    fn test_slice_choose() {
        let mut r = crate::test::rng(107);
        let chars = [
            'a', 'b', 'c', 'd', 'e', 'f', 'g', 'h', 'i', 'j', 'k', 'l', 'm', 'n',
        ];
        let mut chosen = [0i32; 14];
        // The below all use a binomial distribution with n=1000, p=1/14.
        // binocdf(40, 1000, 1/14) ~= 2e-5; 1-binocdf(106, ..) ~= 2e-5
        for _ in 0..1000 {
            let picked = *chars.choose(&mut r).unwrap();
            chosen[(picked as usize) - ('a' as usize)] += 1;
        }
        for count in chosen.iter() {
            assert!(40 < *count && *count < 106);
        }

        chosen.iter_mut().for_each(|x| *x = 0);
        for _ in 0..1000 {
            *chosen.choose_mut(&mut r).unwrap() += 1;
        }
        for count in chosen.iter() {
            assert!(40 < *count && *count < 106);
        }

        let mut v: [isize; 0] = [];
        assert_eq!(v.choose(&mut r), None);
        assert_eq!(v.choose_mut(&mut r), None);
    }

    #[test]
    fn value_stability_slice() {
        let mut r = crate::test::rng(413);
        let chars = [
            'a', 'b', 'c', 'd', 'e', 'f', 'g', 'h', 'i', 'j', 'k', 'l', 'm', 'n',
        ];
        let mut nums = [0, 1, 2, 3, 4, 5, 6, 7, 8, 9, 10, 11, 12];

        assert_eq!(chars.choose(&mut r), Some(&'l'));
        assert_eq!(nums.choose_mut(&mut r), Some(&mut 3));

        assert_eq!(
            &chars.choose_multiple_array(&mut r),
            &Some(['f', 'i', 'd', 'b', 'c', 'm', 'j', 'k'])
        );

        #[cfg(feature = "alloc")]
        assert_eq!(
            &chars
                .choose_multiple(&mut r, 8)
                .cloned()
                .collect::<Vec<char>>(),
            &['h', 'm', 'd', 'b', 'c', 'e', 'n', 'f']
        );

        #[cfg(feature = "alloc")]
        assert_eq!(chars.choose_weighted(&mut r, |_| 1), Ok(&'i'));
        #[cfg(feature = "alloc")]
        assert_eq!(nums.choose_weighted_mut(&mut r, |_| 1), Ok(&mut 2));

        let mut r = crate::test::rng(414);
        nums.shuffle(&mut r);
        assert_eq!(nums, [5, 11, 0, 8, 7, 12, 6, 4, 9, 3, 1, 2, 10]);
        nums = [0, 1, 2, 3, 4, 5, 6, 7, 8, 9, 10, 11, 12];
        let res = nums.partial_shuffle(&mut r, 6);
        assert_eq!(res.0, &mut [7, 12, 6, 8, 1, 9]);
        assert_eq!(res.1, &mut [0, 11, 2, 3, 4, 5, 10]);
    }

    #[test]
    #[cfg_attr(miri, ignore)] // Miri is too slow
    fn test_shuffle() {
        let mut r = crate::test::rng(108);
        let empty: &mut [isize] = &mut [];
        empty.shuffle(&mut r);
        let mut one = [1];
        one.shuffle(&mut r);
        let b: &[_] = &[1];
        assert_eq!(one, b);

        let mut two = [1, 2];
        two.shuffle(&mut r);
        assert!(two == [1, 2] || two == [2, 1]);

        fn move_last(slice: &mut [usize], pos: usize) {
            // use slice[pos..].rotate_left(1); once we can use that
            let last_val = slice[pos];
            for i in pos..slice.len() - 1 {
                slice[i] = slice[i + 1];
            }
            *slice.last_mut().unwrap() = last_val;
        }
        let mut counts = [0i32; 24];
        for _ in 0..10000 {
            let mut arr: [usize; 4] = [0, 1, 2, 3];
            arr.shuffle(&mut r);
            let mut permutation = 0usize;
            let mut pos_value = counts.len();
            for i in 0..4 {
                pos_value /= 4 - i;
                let pos = arr.iter().position(|&x| x == i).unwrap();
                assert!(pos < (4 - i));
                permutation += pos * pos_value;
                move_last(&mut arr, pos);
                assert_eq!(arr[3], i);
            }
            for (i, &a) in arr.iter().enumerate() {
                assert_eq!(a, i);
            }
            counts[permutation] += 1;
        }
        for count in counts.iter() {
            // Binomial(10000, 1/24) with average 416.667
            // Octave: binocdf(n, 10000, 1/24)
            // 99.9% chance samples lie within this range:
            assert!(352 <= *count && *count <= 483, "count: {}", count);
        }
    }

    #[test]
    fn test_partial_shuffle() {
        let mut r = crate::test::rng(118);

        let mut empty: [u32; 0] = [];
        let res = empty.partial_shuffle(&mut r, 10);
        assert_eq!((res.0.len(), res.1.len()), (0, 0));

        let mut v = [1, 2, 3, 4, 5];
        let res = v.partial_shuffle(&mut r, 2);
        assert_eq!((res.0.len(), res.1.len()), (2, 3));
        assert!(res.0[0] != res.0[1]);
        // First elements are only modified if selected, so at least one isn't modified:
        assert!(res.1[0] == 1 || res.1[1] == 2 || res.1[2] == 3);
    }

    #[test]
    #[cfg(feature = "alloc")]
    #[cfg_attr(miri, ignore)] // Miri is too slow
    fn test_weighted() {
        let mut r = crate::test::rng(406);
        const N_REPS: u32 = 3000;
        let weights = [1u32, 2, 3, 0, 5, 6, 7, 1, 2, 3, 4, 5, 6, 7];
        let total_weight = weights.iter().sum::<u32>() as f32;

        let verify = |result: [i32; 14]| {
            for (i, count) in result.iter().enumerate() {
                let exp = (weights[i] * N_REPS) as f32 / total_weight;
                let mut err = (*count as f32 - exp).abs();
                if err != 0.0 {
                    err /= exp;
                }
                assert!(err <= 0.25);
            }
        };

        // choose_weighted
        fn get_weight<T>(item: &(u32, T)) -> u32 {
            item.0
        }
        let mut chosen = [0i32; 14];
        let mut items = [(0u32, 0usize); 14]; // (weight, index)
        for (i, item) in items.iter_mut().enumerate() {
            *item = (weights[i], i);
        }
        for _ in 0..N_REPS {
            let item = items.choose_weighted(&mut r, get_weight).unwrap();
            chosen[item.1] += 1;
        }
        verify(chosen);

        // choose_weighted_mut
        let mut items = [(0u32, 0i32); 14]; // (weight, count)
        for (i, item) in items.iter_mut().enumerate() {
            *item = (weights[i], 0);
        }
        for _ in 0..N_REPS {
            items.choose_weighted_mut(&mut r, get_weight).unwrap().1 += 1;
        }
        for (ch, item) in chosen.iter_mut().zip(items.iter()) {
            *ch = item.1;
        }
        verify(chosen);

        // Check error cases
        let empty_slice = &mut [10][0..0];
        assert_eq!(
            empty_slice.choose_weighted(&mut r, |_| 1),
            Err(WeightError::InvalidInput)
        );
        assert_eq!(
            empty_slice.choose_weighted_mut(&mut r, |_| 1),
            Err(WeightError::InvalidInput)
        );
        assert_eq!(
            ['x'].choose_weighted_mut(&mut r, |_| 0),
            Err(WeightError::InsufficientNonZero)
        );
        assert_eq!(
            [0, -1].choose_weighted_mut(&mut r, |x| *x),
            Err(WeightError::InvalidWeight)
        );
        assert_eq!(
            [-1, 0].choose_weighted_mut(&mut r, |x| *x),
            Err(WeightError::InvalidWeight)
        );
    }

    #[test]
    #[cfg(feature = "std")]
    fn test_multiple_weighted_edge_cases() {
        use super::*;

        let mut rng = crate::test::rng(413);

        // Case 1: One of the weights is 0
        let choices = [('a', 2), ('b', 1), ('c', 0)];
        for _ in 0..100 {
            let result = choices
                .choose_multiple_weighted(&mut rng, 2, |item| item.1)
                .unwrap()
                .collect::<Vec<_>>();

            assert_eq!(result.len(), 2);
            assert!(!result.iter().any(|val| val.0 == 'c'));
        }

        // Case 2: All of the weights are 0
        let choices = [('a', 0), ('b', 0), ('c', 0)];
        let r = choices.choose_multiple_weighted(&mut rng, 2, |item| item.1);
        assert_eq!(r.unwrap().len(), 0);

        // Case 3: Negative weights
        let choices = [('a', -1), ('b', 1), ('c', 1)];
        let r = choices.choose_multiple_weighted(&mut rng, 2, |item| item.1);
        assert_eq!(r.unwrap_err(), WeightError::InvalidWeight);

        // Case 4: Empty list
        let choices = [];
        let r = choices.choose_multiple_weighted(&mut rng, 0, |_: &()| 0);
        assert_eq!(r.unwrap().count(), 0);

        // Case 5: NaN weights
        let choices = [('a', f64::NAN), ('b', 1.0), ('c', 1.0)];
        let r = choices.choose_multiple_weighted(&mut rng, 2, |item| item.1);
        assert_eq!(r.unwrap_err(), WeightError::InvalidWeight);

        // Case 6: +infinity weights
        let choices = [('a', f64::INFINITY), ('b', 1.0), ('c', 1.0)];
        for _ in 0..100 {
            let result = choices
                .choose_multiple_weighted(&mut rng, 2, |item| item.1)
                .unwrap()
                .collect::<Vec<_>>();
            assert_eq!(result.len(), 2);
            assert!(result.iter().any(|val| val.0 == 'a'));
        }

        // Case 7: -infinity weights
        let choices = [('a', f64::NEG_INFINITY), ('b', 1.0), ('c', 1.0)];
        let r = choices.choose_multiple_weighted(&mut rng, 2, |item| item.1);
        assert_eq!(r.unwrap_err(), WeightError::InvalidWeight);

        // Case 8: -0 weights
        let choices = [('a', -0.0), ('b', 1.0), ('c', 1.0)];
        let r = choices.choose_multiple_weighted(&mut rng, 2, |item| item.1);
        assert!(r.is_ok());
    }

    #[test]
    #[cfg(feature = "std")]
    #[cfg_attr(miri, ignore)] // Miri is too slow
    fn test_multiple_weighted_distributions() {
        use super::*;

        // The theoretical probabilities of the different outcomes are:
        // AB: 0.5   * 0.667 = 0.3333
        // AC: 0.5   * 0.333 = 0.1667
        // BA: 0.333 * 0.75  = 0.25
        // BC: 0.333 * 0.25  = 0.0833
        // CA: 0.167 * 0.6   = 0.1
        // CB: 0.167 * 0.4   = 0.0667
        let choices = [('a', 3), ('b', 2), ('c', 1)];
        let mut rng = crate::test::rng(414);

        let mut results = [0i32; 3];
        let expected_results = [5833, 2667, 1500];
        for _ in 0..10000 {
            let result = choices
                .choose_multiple_weighted(&mut rng, 2, |item| item.1)
                .unwrap()
                .collect::<Vec<_>>();

            assert_eq!(result.len(), 2);

            match (result[0].0, result[1].0) {
                ('a', 'b') | ('b', 'a') => {
                    results[0] += 1;
                }
                ('a', 'c') | ('c', 'a') => {
                    results[1] += 1;
                }
                ('b', 'c') | ('c', 'b') => {
                    results[2] += 1;
                }
                (_, _) => panic!("unexpected result"),
            }
        }

        let mut diffs = results
            .iter()
            .zip(&expected_results)
            .map(|(a, b)| (a - b).abs());
        assert!(!diffs.any(|deviation| deviation > 100));
    }
}
