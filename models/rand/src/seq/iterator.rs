// Copyright 2018-2024 Developers of the Rand project.
//
// Licensed under the Apache License, Version 2.0 <LICENSE-APACHE or
// https://www.apache.org/licenses/LICENSE-2.0> or the MIT license
// <LICENSE-MIT or https://opensource.org/licenses/MIT>, at your
// option. This file may not be copied, modified, or distributed
// except according to those terms.

//! `IteratorRandom`

use super::coin_flipper::CoinFlipper;
#[allow(unused)]
use super::IndexedRandom;
use crate::Rng;
#[cfg(feature = "alloc")]
use alloc::vec::Vec;

/// Extension trait on iterators, providing random sampling methods.
///
/// This trait is implemented on all iterators `I` where `I: Iterator + Sized`
/// and provides methods for
/// choosing one or more elements. You must `use` this trait:
///
/// ```
/// use rand::seq::IteratorRandom;
///
/// let faces = "😀😎😐😕😠😢";
/// println!("I am {}!", faces.chars().choose(&mut rand::rng()).unwrap());
/// ```
/// Example output (non-deterministic):
/// ```none
/// I am 😀!
/// ```
pub trait IteratorRandom: Iterator + Sized {
    /// Uniformly sample one element
    ///
    /// Assuming that the [`Iterator::size_hint`] is correct, this method
    /// returns one uniformly-sampled random element of the slice, or `None`
    /// only if the slice is empty. Incorrect bounds on the `size_hint` may
    /// cause this method to incorrectly return `None` if fewer elements than
    /// the advertised `lower` bound are present and may prevent sampling of
    /// elements beyond an advertised `upper` bound (i.e. incorrect `size_hint`
    /// is memory-safe, but may result in unexpected `None` result and
    /// non-uniform distribution).
    ///
    /// With an accurate [`Iterator::size_hint`] and where [`Iterator::nth`] is
    /// a constant-time operation, this method can offer `O(1)` performance.
    /// Where no size hint is
    /// available, complexity is `O(n)` where `n` is the iterator length.
    /// Partial hints (where `lower > 0`) also improve performance.
    ///
    /// Note further that [`Iterator::size_hint`] may affect the number of RNG
    /// samples used as well as the result (while remaining uniform sampling).
    /// Consider instead using [`IteratorRandom::choose_stable`] to avoid
    /// [`Iterator`] combinators which only change size hints from affecting the
    /// results.
    ///
    /// # Example
    ///
    /// ```
    /// use rand::seq::IteratorRandom;
    ///
    /// let words = "Mary had a little lamb".split(' ');
    /// println!("{}", words.choose(&mut rand::rng()).unwrap());
    /// ```
    fn choose<R>(mut self, rng: &mut R) -> Option<Self::Item>
    where
        R: Rng + ?Sized,
    {
        let (mut lower, mut upper) = self.size_hint();
        let mut result = None;

        // Handling for this condition outside the loop allows the optimizer to eliminate the loop
        // when the Iterator is an ExactSizeIterator. This has a large performance impact on e.g.
        // seq_iter_choose_from_1000.
        if upper == Some(lower) {
            return match lower {
                0 => None,
                1 => self.next(),
                _ => self.nth(rng.random_range(..lower)),
            };
        }

        let mut coin_flipper = CoinFlipper::new(rng);
        let mut consumed = 0;

        // Continue until the iterator is exhausted
        loop {
            if lower > 1 {
                let ix = coin_flipper.rng.random_range(..lower + consumed);
                let skip = if ix < lower {
                    result = self.nth(ix);
                    lower - (ix + 1)
                } else {
                    lower
                };
                if upper == Some(lower) {
                    return result;
                }
                consumed += lower;
                if skip > 0 {
                    self.nth(skip - 1);
                }
            } else {
                let elem = self.next();
                if elem.is_none() {
                    return result;
                }
                consumed += 1;
                if coin_flipper.random_ratio_one_over(consumed) {
                    result = elem;
                }
            }

            let hint = self.size_hint();
            lower = hint.0;
            upper = hint.1;
        }
    }

    /// Uniformly sample one element (stable)
    ///
    /// This method is very similar to [`choose`] except that the result
    /// only depends on the length of the iterator and the values produced by
    /// `rng`. Notably for any iterator of a given length this will make the
    /// same requests to `rng` and if the same sequence of values are produced
    /// the same index will be selected from `self`. This may be useful if you
    /// need consistent results no matter what type of iterator you are working
    /// with. If you do not need this stability prefer [`choose`].
    ///
    /// Note that this method still uses [`Iterator::size_hint`] to skip
    /// constructing elements where possible, however the selection and `rng`
    /// calls are the same in the face of this optimization. If you want to
    /// force every element to be created regardless call `.inspect(|e| ())`.
    ///
    /// [`choose`]: IteratorRandom::choose
    //
    // Clippy is wrong here: we need to iterate over all entries with the RNG to
    // ensure that choosing is *stable*.
    // "allow(unknown_lints)" can be removed when switching to at least
    // rust-version 1.86.0, see:
    // https://rust-lang.github.io/rust-clippy/master/index.html#double_ended_iterator_last
    #[allow(unknown_lints)]
    #[allow(clippy::double_ended_iterator_last)]
    fn choose_stable<R>(mut self, rng: &mut R) -> Option<Self::Item>
    where
        R: Rng + ?Sized,
    {
        let mut consumed = 0;
        let mut result = None;
        let mut coin_flipper = CoinFlipper::new(rng);

        loop {
            // Currently the only way to skip elements is `nth()`. So we need to
            // store what index to access next here.
            // This should be replaced by `advance_by()` once it is stable:
            // https://github.com/rust-lang/rust/issues/77404
            let mut next = 0;

            let (lower, _) = self.size_hint();
            if lower >= 2 {
                let highest_selected = (0..lower)
                    .filter(|ix| coin_flipper.random_ratio_one_over(consumed + ix + 1))
                    .last();

                consumed += lower;
                next = lower;

                if let Some(ix) = highest_selected {
                    result = self.nth(ix);
                    next -= ix + 1;
                    debug_assert!(result.is_some(), "iterator shorter than size_hint().0");
                }
            }

            let elem = self.nth(next);
            if elem.is_none() {
                return result;
            }

            if coin_flipper.random_ratio_one_over(consumed + 1) {
                result = elem;
            }
            consumed += 1;
        }
    }

    /// Uniformly sample `amount` distinct elements into a buffer
    ///
    /// Collects values at random from the iterator into a supplied buffer
    /// until that buffer is filled.
    ///
    /// Although the elements are selected randomly, the order of elements in
    /// the buffer is neither stable nor fully random. If random ordering is
    /// desired, shuffle the result.
    ///
    /// Returns the number of elements added to the buffer. This equals the length
    /// of the buffer unless the iterator contains insufficient elements, in which
    /// case this equals the number of elements available.
    ///
    /// Complexity is `O(n)` where `n` is the length of the iterator.
    /// For slices, prefer [`IndexedRandom::choose_multiple`].
    fn choose_multiple_fill<R>(mut self, rng: &mut R, buf: &mut [Self::Item]) -> usize
    where
        R: Rng + ?Sized,
    {
        let amount = buf.len();
        let mut len = 0;
        while len < amount {
            if let Some(elem) = self.next() {
                buf[len] = elem;
                len += 1;
            } else {
                // Iterator exhausted; stop early
                return len;
            }
        }

        // Continue, since the iterator was not exhausted
        for (i, elem) in self.enumerate() {
            let k = rng.random_range(..i + 1 + amount);
            if let Some(slot) = buf.get_mut(k) {
                *slot = elem;
            }
        }
        len
    }

    /// Uniformly sample `amount` distinct elements into a [`Vec`]
    ///
    /// This is equivalent to `choose_multiple_fill` except for the result type.
    ///
    /// Although the elements are selected randomly, the order of elements in
    /// the buffer is neither stable nor fully random. If random ordering is
    /// desired, shuffle the result.
    ///
    /// The length of the returned vector equals `amount` unless the iterator
    /// contains insufficient elements, in which case it equals the number of
    /// elements available.
    ///
    /// Complexity is `O(n)` where `n` is the length of the iterator.
    /// For slices, prefer [`IndexedRandom::choose_multiple`].
    #[cfg(feature = "alloc")]
    fn choose_multiple<R>(mut self, rng: &mut R, amount: usize) -> Vec<Self::Item>
    where
        R: Rng + ?Sized,
    {
        let mut reservoir = Vec::with_capacity(amount);
        reservoir.extend(self.by_ref().take(amount));

        // Continue unless the iterator was exhausted
        //
        // note: this prevents iterators that "restart" from causing problems.
        // If the iterator stops once, then so do we.
        if reservoir.len() == amount {
            for (i, elem) in self.enumerate() {
                let k = rng.random_range(..i + 1 + amount);
                if let Some(slot) = reservoir.get_mut(k) {
                    *slot = elem;
                }
            }
        } else {
            // Don't hang onto extra memory. There is a corner case where
            // `amount` was much less than `self.len()`.
            reservoir.shrink_to_fit();
        }
        reservoir
    }
}

impl<I> IteratorRandom for I where I: Iterator + Sized {}

#[cfg(test)]
mod test {
    use super::*;
    #[cfg(all(feature = "alloc", not(feature = "std")))]
    use alloc::vec::Vec;

    #[derive(Clone)]
    struct UnhintedIterator<I: Iterator + Clone> {
        iter: I,
    }
    impl<I: Iterator + Clone> Iterator for UnhintedIterator<I> {
        type Item = I::Item;

        fn next(&mut self) -> Option<Self::Item> {
            self.iter.next()
        }
    }

    #[derive(Clone)]
    struct ChunkHintedIterator<I: ExactSizeIterator + Iterator + Clone> {
        iter: I,
        chunk_remaining: usize,
        chunk_size: usize,
        hint_total_size: bool,
    }
    impl<I: ExactSizeIterator + Iterator + Clone> Iterator for ChunkHintedIterator<I> {
        type Item = I::Item;

        fn next(&mut self) -> Option<Self::Item> {
            if self.chunk_remaining == 0 {
                self.chunk_remaining = core::cmp::min(self.chunk_size, self.iter.len());
            }
            self.chunk_remaining = self.chunk_remaining.saturating_sub(1);

            self.iter.next()
        }

        fn size_hint(&self) -> (usize, Option<usize>) {
            (
                self.chunk_remaining,
                if self.hint_total_size {
                    Some(self.iter.len())
                } else {
                    None
                },
            )
        }
    }

    #[derive(Clone)]
    struct WindowHintedIterator<I: ExactSizeIterator + Iterator + Clone> {
        iter: I,
        window_size: usize,
        hint_total_size: bool,
    }
    impl<I: ExactSizeIterator + Iterator + Clone> Iterator for WindowHintedIterator<I> {
        type Item = I::Item;

        fn next(&mut self) -> Option<Self::Item> {
            self.iter.next()
        }

        fn size_hint(&self) -> (usize, Option<usize>) {
            (
                core::cmp::min(self.iter.len(), self.window_size),
                if self.hint_total_size {
                    Some(self.iter.len())
                } else {
                    None
                },
            )
        }
    }

    #[test]
    #[cfg_attr(miri, ignore)] // Miri is too slow
    fn test_iterator_choose() {
        let r = &mut crate::test::rng(109);
        fn test_iter<R: Rng + ?Sized, Iter: Iterator<Item = usize> + Clone>(r: &mut R, iter: Iter) {
            let mut chosen = [0i32; 9];
            for _ in 0..1000 {
                let picked = iter.clone().choose(r).unwrap();
                chosen[picked] += 1;
            }
            for count in chosen.iter() {
                // Samples should follow Binomial(1000, 1/9)
                // Octave: binopdf(x, 1000, 1/9) gives the prob of *count == x
                // Note: have seen 153, which is unlikely but not impossible.
                assert!(
                    72 < *count && *count < 154,
                    "count not close to 1000/9: {}",
                    count
                );
            }
        }

        test_iter(r, 0..9);
        test_iter(r, [0, 1, 2, 3, 4, 5, 6, 7, 8].iter().cloned());
        #[cfg(feature = "alloc")]
        test_iter(r, (0..9).collect::<Vec<_>>().into_iter());
        test_iter(r, UnhintedIterator { iter: 0..9 });
        test_iter(
            r,
            ChunkHintedIterator {
                iter: 0..9,
                chunk_size: 4,
                chunk_remaining: 4,
                hint_total_size: false,
            },
        );
        test_iter(
            r,
            ChunkHintedIterator {
                iter: 0..9,
                chunk_size: 4,
                chunk_remaining: 4,
                hint_total_size: true,
            },
        );
        test_iter(
            r,
            WindowHintedIterator {
                iter: 0..9,
                window_size: 2,
                hint_total_size: false,
            },
        );
        test_iter(
            r,
            WindowHintedIterator {
                iter: 0..9,
                window_size: 2,
                hint_total_size: true,
            },
        );

        assert_eq!((0..0).choose(r), None);
        assert_eq!(UnhintedIterator { iter: 0..0 }.choose(r), None);
    }

    #[test]
    #[cfg_attr(miri, ignore)] // Miri is too slow
    fn test_iterator_choose_stable() {
        let r = &mut crate::test::rng(109);
        fn test_iter<R: Rng + ?Sized, Iter: Iterator<Item = usize> + Clone>(r: &mut R, iter: Iter) {
            let mut chosen = [0i32; 9];
            for _ in 0..1000 {
                let picked = iter.clone().choose_stable(r).unwrap();
                chosen[picked] += 1;
            }
            for count in chosen.iter() {
                // Samples should follow Binomial(1000, 1/9)
                // Octave: binopdf(x, 1000, 1/9) gives the prob of *count == x
                // Note: have seen 153, which is unlikely but not impossible.
                assert!(
                    72 < *count && *count < 154,
                    "count not close to 1000/9: {}",
                    count
                );
            }
        }

        test_iter(r, 0..9);
        test_iter(r, [0, 1, 2, 3, 4, 5, 6, 7, 8].iter().cloned());
        #[cfg(feature = "alloc")]
        test_iter(r, (0..9).collect::<Vec<_>>().into_iter());
        test_iter(r, UnhintedIterator { iter: 0..9 });
        test_iter(
            r,
            ChunkHintedIterator {
                iter: 0..9,
                chunk_size: 4,
                chunk_remaining: 4,
                hint_total_size: false,
            },
        );
        test_iter(
            r,
            ChunkHintedIterator {
                iter: 0..9,
                chunk_size: 4,
                chunk_remaining: 4,
                hint_total_size: true,
            },
        );
        test_iter(
            r,
            WindowHintedIterator {
                iter: 0..9,
                window_size: 2,
                hint_total_size: false,
            },
        );
        test_iter(
            r,
            WindowHintedIterator {
                iter: 0..9,
                window_size: 2,
                hint_total_size: true,
            },
        );

        assert_eq!((0..0).choose(r), None);
        assert_eq!(UnhintedIterator { iter: 0..0 }.choose(r), None);
    }

    #[test]
    #[cfg_attr(miri, ignore)] // Miri is too slow
    fn test_iterator_choose_stable_stability() {
        fn test_iter(iter: impl Iterator<Item = usize> + Clone) -> [i32; 9] {
            let r = &mut crate::test::rng(109);
            let mut chosen = [0i32; 9];
            for _ in 0..1000 {
                let picked = iter.clone().choose_stable(r).unwrap();
                chosen[picked] += 1;
            }
            chosen
        }

        let reference = test_iter(0..9);
        assert_eq!(
            test_iter([0, 1, 2, 3, 4, 5, 6, 7, 8].iter().cloned()),
            reference
        );

        #[cfg(feature = "alloc")]
        assert_eq!(test_iter((0..9).collect::<Vec<_>>().into_iter()), reference);
        assert_eq!(test_iter(UnhintedIterator { iter: 0..9 }), reference);
        assert_eq!(
            test_iter(ChunkHintedIterator {
                iter: 0..9,
                chunk_size: 4,
                chunk_remaining: 4,
                hint_total_size: false,
            }),
            reference
        );
        assert_eq!(
            test_iter(ChunkHintedIterator {
                iter: 0..9,
                chunk_size: 4,
                chunk_remaining: 4,
                hint_total_size: true,
            }),
            reference
        );
        assert_eq!(
            test_iter(WindowHintedIterator {
                iter: 0..9,
                window_size: 2,
                hint_total_size: false,
            }),
            reference
        );
        assert_eq!(
            test_iter(WindowHintedIterator {
                iter: 0..9,
                window_size: 2,
                hint_total_size: true,
            }),
            reference
        );
    }

    #[test]
    #[cfg(feature = "alloc")]
    fn test_sample_iter() {
        let min_val = 1;
        let max_val = 100;

        let mut r = crate::test::rng(401);
        let vals = (min_val..max_val).collect::<Vec<i32>>();
        let small_sample = vals.iter().choose_multiple(&mut r, 5);
        let large_sample = vals.iter().choose_multiple(&mut r, vals.len() + 5);

        assert_eq!(small_sample.len(), 5);
        assert_eq!(large_sample.len(), vals.len());
        // no randomization happens when amount >= len
        assert_eq!(large_sample, vals.iter().collect::<Vec<_>>());

        assert!(small_sample
            .iter()
            .all(|e| { **e >= min_val && **e <= max_val }));
    }

    #[test]
    fn value_stability_choose() {
        fn choose<I: Iterator<Item = u32>>(iter: I) -> Option<u32> {
            let mut rng = crate::test::rng(411);
            iter.choose(&mut rng)
        }

        assert_eq!(choose([].iter().cloned()), None);
        assert_eq!(choose(0..100), Some(33));
        assert_eq!(choose(UnhintedIterator { iter: 0..100 }), Some(27));
        assert_eq!(
            choose(ChunkHintedIterator {
                iter: 0..100,
                chunk_size: 32,
                chunk_remaining: 32,
                hint_total_size: false,
            }),
            Some(91)
        );
        assert_eq!(
            choose(ChunkHintedIterator {
                iter: 0..100,
                chunk_size: 32,
                chunk_remaining: 32,
                hint_total_size: true,
            }),
            Some(91)
        );
        assert_eq!(
            choose(WindowHintedIterator {
                iter: 0..100,
                window_size: 32,
                hint_total_size: false,
            }),
            Some(34)
        );
        assert_eq!(
            choose(WindowHintedIterator {
                iter: 0..100,
                window_size: 32,
                hint_total_size: true,
            }),
            Some(34)
        );
    }

    #[test]
    fn value_stability_choose_stable() {
        fn choose<I: Iterator<Item = u32>>(iter: I) -> Option<u32> {
            let mut rng = crate::test::rng(411);
            iter.choose_stable(&mut rng)
        }

        assert_eq!(choose([].iter().cloned()), None);
        assert_eq!(choose(0..100), Some(27));
        assert_eq!(choose(UnhintedIterator { iter: 0..100 }), Some(27));
        assert_eq!(
            choose(ChunkHintedIterator {
                iter: 0..100,
                chunk_size: 32,
                chunk_remaining: 32,
                hint_total_size: false,
            }),
            Some(27)
        );
        assert_eq!(
            choose(ChunkHintedIterator {
                iter: 0..100,
                chunk_size: 32,
                chunk_remaining: 32,
                hint_total_size: true,
            }),
            Some(27)
        );
        assert_eq!(
            choose(WindowHintedIterator {
                iter: 0..100,
                window_size: 32,
                hint_total_size: false,
            }),
            Some(27)
        );
        assert_eq!(
            choose(WindowHintedIterator {
                iter: 0..100,
                window_size: 32,
                hint_total_size: true,
            }),
            Some(27)
        );
    }

    #[test]
    fn value_stability_choose_multiple() {
        fn do_test<I: Clone + Iterator<Item = u32>>(iter: I, v: &[u32]) {
            let mut rng = crate::test::rng(412);
            let mut buf = [0u32; 8];
            assert_eq!(
                iter.clone().choose_multiple_fill(&mut rng, &mut buf),
                v.len()
            );
            assert_eq!(&buf[0..v.len()], v);

            #[cfg(feature = "alloc")]
            {
                let mut rng = crate::test::rng(412);
                assert_eq!(iter.choose_multiple(&mut rng, v.len()), v);
            }
        }

        do_test(0..4, &[0, 1, 2, 3]);
        do_test(0..8, &[0, 1, 2, 3, 4, 5, 6, 7]);
        do_test(0..100, &[77, 95, 38, 23, 25, 8, 58, 40]);
    }
}
