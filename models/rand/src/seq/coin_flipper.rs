// Copyright 2018-2023 Developers of the Rand project.
//
// Licensed under the Apache License, Version 2.0 <LICENSE-APACHE or
// https://www.apache.org/licenses/LICENSE-2.0> or the MIT license
// <LICENSE-MIT or https://opensource.org/licenses/MIT>, at your
// option. This file may not be copied, modified, or distributed
// except according to those terms.

use crate::RngCore;

pub(crate) struct CoinFlipper<R: RngCore> {
    pub rng: R,
    chunk: u32, // TODO(opt): this should depend on RNG word size
    chunk_remaining: u32,
}

impl<R: RngCore> CoinFlipper<R> {
    pub fn new(rng: R) -> Self {
        Self {
            rng,
            chunk: 0,
            chunk_remaining: 0,
        }
    }

    #[inline]
    /// Returns true with a probability of 1 / d
    /// Uses an expected two bits of randomness
    /// Panics if d == 0
    pub fn random_ratio_one_over(&mut self, d: usize) -> bool {
        debug_assert_ne!(d, 0);
        // This uses the same logic as `random_ratio` but is optimized for the case that
        // the starting numerator is one (which it always is for `Sequence::Choose()`)

        // In this case (but not `random_ratio`), this way of calculating c is always accurate
        let c = (usize::BITS - 1 - d.leading_zeros()).min(32);

        if self.flip_c_heads(c) {
            let numerator = 1 << c;
            self.random_ratio(numerator, d)
        } else {
            false
        }
    }

    #[inline]
    /// Returns true with a probability of n / d
    /// Uses an expected two bits of randomness
    fn random_ratio(&mut self, mut n: usize, d: usize) -> bool {
        // Explanation:
        // We are trying to return true with a probability of n / d
        // If n >= d, we can just return true
        // Otherwise there are two possibilities 2n < d and 2n >= d
        // In either case we flip a coin.
        // If 2n < d
        //  If it comes up tails, return false
        //  If it comes up heads, double n and start again
        //  This is fair because (0.5 * 0) + (0.5 * 2n / d) = n / d and 2n is less than d
        // (if 2n was greater than d we would effectively round it down to 1
        // by returning true)
        // If 2n >= d
        //  If it comes up tails, set n to 2n - d and start again
        //  If it comes up heads, return true
        //  This is fair because (0.5 * 1) + (0.5 * (2n - d) / d) = n / d
        //  Note that if 2n = d and the coin comes up tails, n will be set to 0
        //  before restarting which is equivalent to returning false.

        // As a performance optimization we can flip multiple coins at once
        // This is efficient because we can use the `lzcnt` intrinsic
        // We can check up to 32 flips at once but we only receive one bit of information
        // - all heads or at least one tail.

        // Let c be the number of coins to flip. 1 <= c <= 32
        // If 2n < d, n * 2^c < d
        // If the result is all heads, then set n to n * 2^c
        // If there was at least one tail, return false
        // If 2n >= d, the order of results matters so we flip one coin at a time so c = 1
        // Ideally, c will be as high as possible within these constraints

        while n < d {
            // Find a good value for c by counting leading zeros
            // This will either give the highest possible c, or 1 less than that
            let c = n
                .leading_zeros()
                .saturating_sub(d.leading_zeros() + 1)
                .clamp(1, 32);

            if self.flip_c_heads(c) {
                // All heads
                // Set n to n * 2^c
                // If 2n >= d, the while loop will exit and we will return `true`
                // If n * 2^c > `usize::MAX` we always return `true` anyway
                n = n.saturating_mul(2_usize.pow(c));
            } else {
                // At least one tail
                if c == 1 {
                    // Calculate 2n - d.
                    // We need to use wrapping as 2n might be greater than `usize::MAX`
                    let next_n = n.wrapping_add(n).wrapping_sub(d);
                    if next_n == 0 || next_n > n {
                        // This will happen if 2n < d
                        return false;
                    }
                    n = next_n;
                } else {
                    // c > 1 so 2n < d so we can return false
                    return false;
                }
            }
        }
        true
    }

    /// If the next `c` bits of randomness all represent heads, consume them, return true
    /// Otherwise return false and consume the number of heads plus one.
    /// Generates new bits of randomness when necessary (in 32 bit chunks)
    /// Has a 1 in 2 to the `c` chance of returning true
    /// `c` must be less than or equal to 32
    fn flip_c_heads(&mut self, mut c: u32) -> bool {
        debug_assert!(c <= 32);
        // Note that zeros on the left of the chunk represent heads.
        // It needs to be this way round because zeros are filled in when left shifting
        loop {
            let zeros = self.chunk.leading_zeros();

            if zeros < c {
                // The happy path - we found a 1 and can return false
                // Note that because a 1 bit was detected,
                // We cannot have run out of random bits so we don't need to check

                // First consume all of the bits read
                // Using shl seems to give worse performance for size-hinted iterators
                self.chunk = self.chunk.wrapping_shl(zeros + 1);

                self.chunk_remaining = self.chunk_remaining.saturating_sub(zeros + 1);
                return false;
            } else {
                // The number of zeros is larger than `c`
                // There are two possibilities
                if let Some(new_remaining) = self.chunk_remaining.checked_sub(c) {
                    // Those zeroes were all part of our random chunk,
                    // throw away `c` bits of randomness and return true
                    self.chunk_remaining = new_remaining;
                    self.chunk <<= c;
                    return true;
                } else {
                    // Some of those zeroes were part of the random chunk
                    // and some were part of the space behind it
                    // We need to take into account only the zeroes that were random
                    c -= self.chunk_remaining;

                    // Generate a new chunk
                    self.chunk = self.rng.next_u32();
                    self.chunk_remaining = 32;
                    // Go back to start of loop
                }
            }
        }
    }
}
