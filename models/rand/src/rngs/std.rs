// Copyright 2018 Developers of the Rand project.
//
// Licensed under the Apache License, Version 2.0 <LICENSE-APACHE or
// https://www.apache.org/licenses/LICENSE-2.0> or the MIT license
// <LICENSE-MIT or https://opensource.org/licenses/MIT>, at your
// option. This file may not be copied, modified, or distributed
// except according to those terms.

//! The standard RNG

use rand_core::{CryptoRng, RngCore, SeedableRng};

#[cfg(any(test, feature = "os_rng"))]
pub(crate) use rand_chacha::ChaCha12Core as Core;

use rand_chacha::ChaCha12Rng as Rng;

/// A strong, fast (amortized), non-portable RNG
///
/// This is the "standard" RNG, a generator with the following properties:
///
/// - Non-[portable]: any future library version may replace the algorithm
///   and results may be platform-dependent.
///   (For a portable version, use the [rand_chacha] crate directly.)
/// - [CSPRNG]: statistically good quality of randomness and [unpredictable]
/// - Fast ([amortized](https://en.wikipedia.org/wiki/Amortized_analysis)):
///   the RNG is fast for bulk generation, but the cost of method calls is not
///   consistent due to usage of an output buffer.
///
/// The current algorithm used is the ChaCha block cipher with 12 rounds. Please
/// see this relevant [rand issue] for the discussion. This may change as new
/// evidence of cipher security and performance becomes available.
///
/// ## Seeding (construction)
///
/// This generator implements the [`SeedableRng`] trait. Any method may be used,
/// but note that `seed_from_u64` is not suitable for usage where security is
/// important. Also note that, even with a fixed seed, output is not [portable].
///
/// Using a fresh seed **direct from the OS** is the most secure option:
/// ```
/// # use rand::{SeedableRng, rngs::StdRng};
/// let rng = StdRng::from_os_rng();
/// # let _: StdRng = rng;
/// ```
///
/// Seeding via [`rand::rng()`](crate::rng()) may be faster:
/// ```
/// # use rand::{SeedableRng, rngs::StdRng};
/// let rng = StdRng::from_rng(&mut rand::rng());
/// # let _: StdRng = rng;
/// ```
///
/// Any [`SeedableRng`] method may be used, but note that `seed_from_u64` is not
/// suitable where security is required. See also [Seeding RNGs] in the book.
///
/// ## Generation
///
/// The generators implements [`RngCore`] and thus also [`Rng`][crate::Rng].
/// See also the [Random Values] chapter in the book.
///
/// [portable]: https://rust-random.github.io/book/crate-reprod.html
/// [Seeding RNGs]: https://rust-random.github.io/book/guide-seeding.html
/// [unpredictable]: https://rust-random.github.io/book/guide-rngs.html#security
/// [Random Values]: https://rust-random.github.io/book/guide-values.html
/// [CSPRNG]: https://rust-random.github.io/book/guide-gen.html#cryptographically-secure-pseudo-random-number-generator
/// [rand_chacha]: https://crates.io/crates/rand_chacha
/// [rand issue]: https://github.com/rust-random/rand/issues/932
#[derive(Clone, Debug, PartialEq, Eq)]
pub struct StdRng(Rng);

impl RngCore for StdRng {
    #[inline(always)]
    fn next_u32(&mut self) -> u32 {
        self.0.next_u32()
    }

    #[inline(always)]
    fn next_u64(&mut self) -> u64 {
        self.0.next_u64()
    }

    #[inline(always)]
    fn fill_bytes(&mut self, dst: &mut [u8]) {
        self.0.fill_bytes(dst)
    }
}

impl SeedableRng for StdRng {
    // Fix to 256 bits. Changing this is a breaking change!
    type Seed = [u8; 32];

    #[inline(always)]
    fn from_seed(seed: Self::Seed) -> Self {
        StdRng(Rng::from_seed(seed))
    }
}

impl CryptoRng for StdRng {}

#[cfg(test)]
mod test {
    use crate::rngs::StdRng;
    use crate::{RngCore, SeedableRng};

    #[test]
    fn test_stdrng_construction() {
        // Test value-stability of StdRng. This is expected to break any time
        // the algorithm is changed.
        #[rustfmt::skip]
        let seed = [1,0,0,0, 23,0,0,0, 200,1,0,0, 210,30,0,0,
                    0,0,0,0, 0,0,0,0, 0,0,0,0, 0,0,0,0];

        let target = [10719222850664546238, 14064965282130556830];

        let mut rng0 = StdRng::from_seed(seed);
        let x0 = rng0.next_u64();

        let mut rng1 = StdRng::from_rng(&mut rng0);
        let x1 = rng1.next_u64();

        assert_eq!([x0, x1], target);
    }
}
