// Copyright 2018 Developers of the Rand project.
//
// Licensed under the Apache License, Version 2.0 <LICENSE-APACHE or
// https://www.apache.org/licenses/LICENSE-2.0> or the MIT license
// <LICENSE-MIT or https://opensource.org/licenses/MIT>, at your
// option. This file may not be copied, modified, or distributed
// except according to those terms.

use rand_core::impls::{fill_bytes_via_next, next_u64_via_u32};
use rand_core::le::read_u32_into;
use rand_core::{RngCore, SeedableRng};
#[cfg(feature = "serde")]
use serde::{Deserialize, Serialize};

/// A xoshiro128++ random number generator.
///
/// The xoshiro128++ algorithm is not suitable for cryptographic purposes, but
/// is very fast and has excellent statistical properties.
///
/// The algorithm used here is translated from [the `xoshiro128plusplus.c`
/// reference source code](http://xoshiro.di.unimi.it/xoshiro128plusplus.c) by
/// David Blackman and Sebastiano Vigna.
#[derive(Debug, Clone, PartialEq, Eq)]
#[cfg_attr(feature = "serde", derive(Serialize, Deserialize))]
pub struct Xoshiro128PlusPlus {
    s: [u32; 4],
}

impl SeedableRng for Xoshiro128PlusPlus {
    type Seed = [u8; 16];

    /// Create a new `Xoshiro128PlusPlus`.  If `seed` is entirely 0, it will be
    /// mapped to a different seed.
    #[inline]
    fn from_seed(seed: [u8; 16]) -> Xoshiro128PlusPlus {
        let mut state = [0; 4];
        read_u32_into(&seed, &mut state);
        // Check for zero on aligned integers for better code generation.
        // Furtermore, seed_from_u64(0) will expand to a constant when optimized.
        if state.iter().all(|&x| x == 0) {
            return Self::seed_from_u64(0);
        }
        Xoshiro128PlusPlus { s: state }
    }

    /// Create a new `Xoshiro128PlusPlus` from a `u64` seed.
    ///
    /// This uses the SplitMix64 generator internally.
    #[inline]
    fn seed_from_u64(mut state: u64) -> Self {
        const PHI: u64 = 0x9e3779b97f4a7c15;
        let mut s = [0; 4];
        for i in s.chunks_exact_mut(2) {
            state = state.wrapping_add(PHI);
            let mut z = state;
            z = (z ^ (z >> 30)).wrapping_mul(0xbf58476d1ce4e5b9);
            z = (z ^ (z >> 27)).wrapping_mul(0x94d049bb133111eb);
            z = z ^ (z >> 31);
            i[0] = z as u32;
            i[1] = (z >> 32) as u32;
        }
        // By using a non-zero PHI we are guaranteed to generate a non-zero state
        // Thus preventing a recursion between from_seed and seed_from_u64.
        debug_assert_ne!(s, [0; 4]);
        Xoshiro128PlusPlus { s }
    }
}

impl RngCore for Xoshiro128PlusPlus {
    #[inline]
    fn next_u32(&mut self) -> u32 {
        let res = self.s[0]
            .wrapping_add(self.s[3])
            .rotate_left(7)
            .wrapping_add(self.s[0]);

        let t = self.s[1] << 9;

        self.s[2] ^= self.s[0];
        self.s[3] ^= self.s[1];
        self.s[1] ^= self.s[2];
        self.s[0] ^= self.s[3];

        self.s[2] ^= t;

        self.s[3] = self.s[3].rotate_left(11);

        res
    }

    #[inline]
    fn next_u64(&mut self) -> u64 {
        next_u64_via_u32(self)
    }

    #[inline]
    fn fill_bytes(&mut self, dst: &mut [u8]) {
        fill_bytes_via_next(self, dst)
    }
}

#[cfg(test)]
mod tests {
    use super::Xoshiro128PlusPlus;
    use rand_core::{RngCore, SeedableRng};

    #[test]
    fn reference() {
        let mut rng =
            Xoshiro128PlusPlus::from_seed([1, 0, 0, 0, 2, 0, 0, 0, 3, 0, 0, 0, 4, 0, 0, 0]);
        // These values were produced with the reference implementation:
        // http://xoshiro.di.unimi.it/xoshiro128plusplus.c
        let expected = [
            641, 1573767, 3222811527, 3517856514, 836907274, 4247214768, 3867114732, 1355841295,
            495546011, 621204420,
        ];
        for &e in &expected {
            assert_eq!(rng.next_u32(), e);
        }
    }

    #[test]
    fn stable_seed_from_u64_and_from_seed() {
        // We don't guarantee value-stability for SmallRng but this
        // could influence keeping stability whenever possible (e.g. after optimizations).
        let mut rng = Xoshiro128PlusPlus::seed_from_u64(0);
        // from_seed([0; 16]) should produce the same state as seed_from_u64(0).
        let mut rng_from_seed_0 = Xoshiro128PlusPlus::from_seed([0; 16]);
        let expected = [
            1179900579, 1938959192, 3089844957, 3657088315, 1015453891, 479942911, 3433842246,
            669252886, 3985671746, 2737205563,
        ];
        for &e in &expected {
            assert_eq!(rng.next_u32(), e);
            assert_eq!(rng_from_seed_0.next_u32(), e);
        }
    }
}
