// Copyright 2018 Developers of the Rand project.
//
// Licensed under the Apache License, Version 2.0 <LICENSE-APACHE or
// https://www.apache.org/licenses/LICENSE-2.0> or the MIT license
// <LICENSE-MIT or https://opensource.org/licenses/MIT>, at your
// option. This file may not be copied, modified, or distributed
// except according to those terms.

//! Random number generators and adapters
//!
//! This crate provides a small selection of non-[portable] generators.
//! See also [Types of generators] and [Our RNGs] in the book.
//!
//! ## Generators
//!
//! This crate provides a small selection of non-[portable] random number generators:
//!
//! -   [`OsRng`] is a stateless interface over the operating system's random number
//!     source. This is typically secure with some form of periodic re-seeding.
//! -   [`ThreadRng`], provided by [`crate::rng()`], is a handle to a
//!     thread-local generator with periodic seeding from [`OsRng`]. Because this
//!     is local, it is typically much faster than [`OsRng`]. It should be
//!     secure, but see documentation on [`ThreadRng`].
//! -   [`StdRng`] is a CSPRNG chosen for good performance and trust of security
//!     (based on reviews, maturity and usage). The current algorithm is ChaCha12,
//!     which is well established and rigorously analysed.
//!     [`StdRng`] is the deterministic generator used by [`ThreadRng`] but
//!     without the periodic reseeding or thread-local management.
//! -   [`SmallRng`] is a relatively simple, insecure generator designed to be
//!     fast, use little memory, and pass various statistical tests of
//!     randomness quality.
//!
//! The algorithms selected for [`StdRng`] and [`SmallRng`] may change in any
//! release and may be platform-dependent, therefore they are not
//! [reproducible][portable].
//!
//! ### Additional generators
//!
//! -   The [`rdrand`] crate provides an interface to the RDRAND and RDSEED
//!     instructions available in modern Intel and AMD CPUs.
//! -   The [`rand_jitter`] crate provides a user-space implementation of
//!     entropy harvesting from CPU timer jitter, but is very slow and has
//!     [security issues](https://github.com/rust-random/rand/issues/699).
//! -   The [`rand_chacha`] crate provides [portable] implementations of
//!     generators derived from the [ChaCha] family of stream ciphers
//! -   The [`rand_pcg`] crate provides [portable] implementations of a subset
//!     of the [PCG] family of small, insecure generators
//! -   The [`rand_xoshiro`] crate provides [portable] implementations of the
//!     [xoshiro] family of small, insecure generators
//!
//! For more, search [crates with the `rng` tag].
//!
//! ## Traits and functionality
//!
//! All generators implement [`RngCore`] and thus also [`Rng`][crate::Rng].
//! See also the [Random Values] chapter in the book.
//!
//! Secure RNGs may additionally implement the [`CryptoRng`] trait.
//!
//! Use the [`rand_core`] crate when implementing your own RNGs.
//!
//! [portable]: https://rust-random.github.io/book/crate-reprod.html
//! [Types of generators]: https://rust-random.github.io/book/guide-gen.html
//! [Our RNGs]: https://rust-random.github.io/book/guide-rngs.html
//! [Random Values]: https://rust-random.github.io/book/guide-values.html
//! [`Rng`]: crate::Rng
//! [`RngCore`]: crate::RngCore
//! [`CryptoRng`]: crate::CryptoRng
//! [`SeedableRng`]: crate::SeedableRng
//! [`rdrand`]: https://crates.io/crates/rdrand
//! [`rand_jitter`]: https://crates.io/crates/rand_jitter
//! [`rand_chacha`]: https://crates.io/crates/rand_chacha
//! [`rand_pcg`]: https://crates.io/crates/rand_pcg
//! [`rand_xoshiro`]: https://crates.io/crates/rand_xoshiro
//! [crates with the `rng` tag]: https://crates.io/keywords/rng
//! [chacha]: https://cr.yp.to/chacha.html
//! [PCG]: https://www.pcg-random.org/
//! [xoshiro]: https://prng.di.unimi.it/

mod reseeding;
pub use reseeding::ReseedingRng;

#[deprecated(since = "0.9.2")]
pub mod mock; // Public so we don't export `StepRng` directly, making it a bit
              // more clear it is intended for testing.

#[cfg(feature = "small_rng")]
mod small;
#[cfg(all(
    feature = "small_rng",
    any(target_pointer_width = "32", target_pointer_width = "16")
))]
mod xoshiro128plusplus;
#[cfg(all(feature = "small_rng", target_pointer_width = "64"))]
mod xoshiro256plusplus;

#[cfg(feature = "std_rng")]
mod std;
#[cfg(feature = "thread_rng")]
pub(crate) mod thread;

#[cfg(feature = "small_rng")]
pub use self::small::SmallRng;
#[cfg(feature = "std_rng")]
pub use self::std::StdRng;
#[cfg(feature = "thread_rng")]
pub use self::thread::ThreadRng;

#[cfg(feature = "os_rng")]
pub use rand_core::OsRng;
