// Copyright 2018 Developers of the Rand project.
//
// Licensed under the Apache License, Version 2.0 <LICENSE-APACHE or
// https://www.apache.org/licenses/LICENSE-2.0> or the MIT license
// <LICENSE-MIT or https://opensource.org/licenses/MIT>, at your
// option. This file may not be copied, modified, or distributed
// except according to those terms.

//! A small fast RNG

use rand_core::{RngCore, SeedableRng};

#[cfg(any(target_pointer_width = "32", target_pointer_width = "16"))]
type Rng = super::xoshiro128plusplus::Xoshiro128PlusPlus;
#[cfg(target_pointer_width = "64")]
type Rng = super::xoshiro256plusplus::Xoshiro256PlusPlus;

/// A small-state, fast, non-crypto, non-portable PRNG
///
/// This is the "standard small" RNG, a generator with the following properties:
///
/// - Non-[portable]: any future library version may replace the algorithm
///   and results may be platform-dependent.
///   (For a small portable generator, use the [rand_pcg] or [rand_xoshiro] crate.)
/// - Non-cryptographic: output is easy to predict (insecure)
/// - [Quality]: statistically good quality
/// - Fast: the RNG is fast for both bulk generation and single values, with
///   consistent cost of method calls
/// - Fast initialization
/// - Small state: little memory usage (current state size is 16-32 bytes
///   depending on platform)
///
/// The current algorithm is
/// `Xoshiro256PlusPlus` on 64-bit platforms and `Xoshiro128PlusPlus` on 32-bit
/// platforms. Both are also implemented by the [rand_xoshiro] crate.
///
/// ## Seeding (construction)
///
/// This generator implements the [`SeedableRng`] trait. All methods are
/// suitable for seeding, but note that, even with a fixed seed, output is not
/// [portable]. Some suggestions:
///
/// 1.  To automatically seed with a unique seed, use [`SeedableRng::from_rng`]:
///     ```
///     use rand::SeedableRng;
///     use rand::rngs::SmallRng;
///     let rng = SmallRng::from_rng(&mut rand::rng());
///     # let _: SmallRng = rng;
///     ```
///     or [`SeedableRng::from_os_rng`]:
///     ```
///     # use rand::SeedableRng;
///     # use rand::rngs::SmallRng;
///     let rng = SmallRng::from_os_rng();
///     # let _: SmallRng = rng;
///     ```
/// 2.  To use a deterministic integral seed, use `seed_from_u64`. This uses a
///     hash function internally to yield a (typically) good seed from any
///     input.
///     ```
///     # use rand::{SeedableRng, rngs::SmallRng};
///     let rng = SmallRng::seed_from_u64(1);
///     # let _: SmallRng = rng;
///     ```
/// 3.  To seed deterministically from text or other input, use [`rand_seeder`].
///
/// See also [Seeding RNGs] in the book.
///
/// ## Generation
///
/// The generators implements [`RngCore`] and thus also [`Rng`][crate::Rng].
/// See also the [Random Values] chapter in the book.
///
/// [portable]: https://rust-random.github.io/book/crate-reprod.html
/// [Seeding RNGs]: https://rust-random.github.io/book/guide-seeding.html
/// [Random Values]: https://rust-random.github.io/book/guide-values.html
/// [Quality]: https://rust-random.github.io/book/guide-rngs.html#quality
/// [`StdRng`]: crate::rngs::StdRng
/// [rand_pcg]: https://crates.io/crates/rand_pcg
/// [rand_xoshiro]: https://crates.io/crates/rand_xoshiro
/// [`rand_chacha::ChaCha8Rng`]: https://docs.rs/rand_chacha/latest/rand_chacha/struct.ChaCha8Rng.html
/// [`rand_seeder`]: https://docs.rs/rand_seeder/latest/rand_seeder/
#[derive(Clone, Debug, PartialEq, Eq)]
pub struct SmallRng(Rng);

impl SeedableRng for SmallRng {
    // Fix to 256 bits. Changing this is a breaking change!
    type Seed = [u8; 32];

    #[inline(always)]
    fn from_seed(seed: Self::Seed) -> Self {
        // This is for compatibility with 32-bit platforms where Rng::Seed has a different seed size
        // With MSRV >= 1.77: let seed = *seed.first_chunk().unwrap()
        const LEN: usize = core::mem::size_of::<<Rng as SeedableRng>::Seed>();
        let seed = (&seed[..LEN]).try_into().unwrap();
        SmallRng(Rng::from_seed(seed))
    }

    #[inline(always)]
    fn seed_from_u64(state: u64) -> Self {
        SmallRng(Rng::seed_from_u64(state))
    }
}

impl RngCore for SmallRng {
    #[inline(always)]
    fn next_u32(&mut self) -> u32 {
        self.0.next_u32()
    }

    #[inline(always)]
    fn next_u64(&mut self) -> u64 {
        self.0.next_u64()
    }

    #[inline(always)]
    fn fill_bytes(&mut self, dest: &mut [u8]) {
        self.0.fill_bytes(dest)
    }
}
