// Copyright 2018 Developers of the Rand project.
//
// Licensed under the Apache License, Version 2.0 <LICENSE-APACHE or
// https://www.apache.org/licenses/LICENSE-2.0> or the MIT license
// <LICENSE-MIT or https://opensource.org/licenses/MIT>, at your
// option. This file may not be copied, modified, or distributed
// except according to those terms.

//! Mock random number generator

#![allow(deprecated)]

use rand_core::{impls, RngCore};

#[cfg(feature = "serde")]
use serde::{Deserialize, Serialize};

/// A mock generator yielding very predictable output
///
/// This generates an arithmetic sequence (i.e. adds a constant each step)
/// over a `u64` number, using wrapping arithmetic. If the increment is 0
/// the generator yields a constant.
///
/// Other integer types (64-bit and smaller) are produced via cast from `u64`.
///
/// Other types are produced via their implementation of [`Rng`](crate::Rng) or
/// [`Distribution`](crate::distr::Distribution).
/// Output values may not be intuitive and may change in future releases but
/// are considered
/// [portable](https://rust-random.github.io/book/portability.html).
/// (`bool` output is true when bit `1u64 << 31` is set.)
///
/// # Example
///
/// ```
/// # #![allow(deprecated)]
/// use rand::Rng;
/// use rand::rngs::mock::StepRng;
///
/// let mut my_rng = StepRng::new(2, 1);
/// let sample: [u64; 3] = my_rng.random();
/// assert_eq!(sample, [2, 3, 4]);
/// ```
#[derive(Debug, Clone, PartialEq, Eq)]
#[cfg_attr(feature = "serde", derive(Serialize, Deserialize))]
#[deprecated(since = "0.9.2", note = "Deprecated without replacement")]
pub struct StepRng {
    v: u64,
    a: u64,
}

impl StepRng {
    /// Create a `StepRng`, yielding an arithmetic sequence starting with
    /// `initial` and incremented by `increment` each time.
    pub fn new(initial: u64, increment: u64) -> Self {
        StepRng {
            v: initial,
            a: increment,
        }
    }
}

impl RngCore for StepRng {
    #[inline]
    fn next_u32(&mut self) -> u32 {
        self.next_u64() as u32
    }

    #[inline]
    fn next_u64(&mut self) -> u64 {
        let res = self.v;
        self.v = self.v.wrapping_add(self.a);
        res
    }

    #[inline]
    fn fill_bytes(&mut self, dst: &mut [u8]) {
        impls::fill_bytes_via_next(self, dst)
    }
}
