// Copyright 2018 Developers of the Rand project.
//
// Licensed under the Apache License, Version 2.0 <LICENSE-APACHE or
// https://www.apache.org/licenses/LICENSE-2.0> or the MIT license
// <LICENSE-MIT or https://opensource.org/licenses/MIT>, at your
// option. This file may not be copied, modified, or distributed
// except according to those terms.

use rand_core::impls::fill_bytes_via_next;
use rand_core::le::read_u64_into;
use rand_core::{RngCore, SeedableRng};
#[cfg(feature = "serde")]
use serde::{Deserialize, Serialize};

/// A xoshiro256++ random number generator.
///
/// The xoshiro256++ algorithm is not suitable for cryptographic purposes, but
/// is very fast and has excellent statistical properties.
///
/// The algorithm used here is translated from [the `xoshiro256plusplus.c`
/// reference source code](http://xoshiro.di.unimi.it/xoshiro256plusplus.c) by
/// David Blackman and Sebastiano Vigna.
#[derive(Debug, Clone, PartialEq, Eq)]
#[cfg_attr(feature = "serde", derive(Serialize, Deserialize))]
pub struct Xoshiro256PlusPlus {
    s: [u64; 4],
}

impl SeedableRng for Xoshiro256PlusPlus {
    type Seed = [u8; 32];

    /// Create a new `Xoshiro256PlusPlus`.  If `seed` is entirely 0, it will be
    /// mapped to a different seed.
    #[inline]
    fn from_seed(seed: [u8; 32]) -> Xoshiro256PlusPlus {
        let mut state = [0; 4];
        read_u64_into(&seed, &mut state);
        // Check for zero on aligned integers for better code generation.
        // Furtermore, seed_from_u64(0) will expand to a constant when optimized.
        if state.iter().all(|&x| x == 0) {
            return Self::seed_from_u64(0);
        }
        Xoshiro256PlusPlus { s: state }
    }

    /// Create a new `Xoshiro256PlusPlus` from a `u64` seed.
    ///
    /// This uses the SplitMix64 generator internally.
    #[inline]
    fn seed_from_u64(mut state: u64) -> Self {
        const PHI: u64 = 0x9e3779b97f4a7c15;
        let mut s = [0; 4];
        for i in s.iter_mut() {
            state = state.wrapping_add(PHI);
            let mut z = state;
            z = (z ^ (z >> 30)).wrapping_mul(0xbf58476d1ce4e5b9);
            z = (z ^ (z >> 27)).wrapping_mul(0x94d049bb133111eb);
            z = z ^ (z >> 31);
            *i = z;
        }
        // By using a non-zero PHI we are guaranteed to generate a non-zero state
        // Thus preventing a recursion between from_seed and seed_from_u64.
        debug_assert_ne!(s, [0; 4]);
        Xoshiro256PlusPlus { s }
    }
}

impl RngCore for Xoshiro256PlusPlus {
    #[inline]
    fn next_u32(&mut self) -> u32 {
        // The lowest bits have some linear dependencies, so we use the
        // upper bits instead.
        let val = self.next_u64();
        (val >> 32) as u32
    }

    #[inline]
    fn next_u64(&mut self) -> u64 {
        let res = self.s[0]
            .wrapping_add(self.s[3])
            .rotate_left(23)
            .wrapping_add(self.s[0]);

        let t = self.s[1] << 17;

        self.s[2] ^= self.s[0];
        self.s[3] ^= self.s[1];
        self.s[1] ^= self.s[2];
        self.s[0] ^= self.s[3];

        self.s[2] ^= t;

        self.s[3] = self.s[3].rotate_left(45);

        res
    }

    #[inline]
    fn fill_bytes(&mut self, dst: &mut [u8]) {
        fill_bytes_via_next(self, dst)
    }
}

#[cfg(test)]
mod tests {
    use super::Xoshiro256PlusPlus;
    use rand_core::{RngCore, SeedableRng};

    #[test]
    fn reference() {
        let mut rng = Xoshiro256PlusPlus::from_seed([
            1, 0, 0, 0, 0, 0, 0, 0, 2, 0, 0, 0, 0, 0, 0, 0, 3, 0, 0, 0, 0, 0, 0, 0, 4, 0, 0, 0, 0,
            0, 0, 0,
        ]);
        // These values were produced with the reference implementation:
        // http://xoshiro.di.unimi.it/xoshiro256plusplus.c
        let expected = [
            41943041,
            58720359,
            3588806011781223,
            3591011842654386,
            9228616714210784205,
            9973669472204895162,
            14011001112246962877,
            12406186145184390807,
            15849039046786891736,
            10450023813501588000,
        ];
        for &e in &expected {
            assert_eq!(rng.next_u64(), e);
        }
    }

    #[test]
    fn stable_seed_from_u64_and_from_seed() {
        // We don't guarantee value-stability for SmallRng but this
        // could influence keeping stability whenever possible (e.g. after optimizations).
        let mut rng = Xoshiro256PlusPlus::seed_from_u64(0);
        // from_seed([0; 32]) should produce the same state as seed_from_u64(0).
        let mut rng_from_seed_0 = Xoshiro256PlusPlus::from_seed([0; 32]);
        let expected = [
            5987356902031041503,
            7051070477665621255,
            6633766593972829180,
            211316841551650330,
            9136120204379184874,
            379361710973160858,
            15813423377499357806,
            15596884590815070553,
            5439680534584881407,
            1369371744833522710,
        ];
        for &e in &expected {
            assert_eq!(rng.next_u64(), e);
            assert_eq!(rng_from_seed_0.next_u64(), e);
        }
    }
}
