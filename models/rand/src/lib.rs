// Copyright 2018 Developers of the Rand project.
// Copyright 2013-2017 The Rust Project Developers.
//
// Licensed under the Apache License, Version 2.0 <LICENSE-APACHE or
// https://www.apache.org/licenses/LICENSE-2.0> or the MIT license
// <LICENSE-MIT or https://opensource.org/licenses/MIT>, at your
// option. This file may not be copied, modified, or distributed
// except according to those terms.

//! Utilities for random number generation
//!
//! Rand provides utilities to generate random numbers, to convert them to
//! useful types and distributions, and some randomness-related algorithms.
//!
//! # Quick Start
//!
//! ```
//! // The prelude import enables methods we use below, specifically
//! // Rng::random, Rng::sample, SliceRandom::shuffle and IndexedRandom::choose.
//! use rand::prelude::*;
//!
//! // Get an RNG:
//! let mut rng = rand::rng();
//!
//! // Try printing a random unicode code point (probably a bad idea)!
//! println!("char: '{}'", rng.random::<char>());
//! // Try printing a random alphanumeric value instead!
//! println!("alpha: '{}'", rng.sample(rand::distr::Alphanumeric) as char);
//!
//! // Generate and shuffle a sequence:
//! let mut nums: Vec<i32> = (1..100).collect();
//! nums.shuffle(&mut rng);
//! // And take a random pick (yes, we didn't need to shuffle first!):
//! let _ = nums.choose(&mut rng);
//! ```
//!
//! # The Book
//!
//! For the user guide and further documentation, please read
//! [The Rust Rand Book](https://rust-random.github.io/book).

#![doc(
    html_logo_url = "https://www.rust-lang.org/logos/rust-logo-128x128-blk.png",
    html_favicon_url = "https://www.rust-lang.org/favicon.ico",
    html_root_url = "https://rust-random.github.io/rand/"
)]
#![deny(missing_docs)]
#![deny(missing_debug_implementations)]
#![doc(test(attr(allow(unused_variables), deny(warnings))))]
#![no_std]
#![cfg_attr(feature = "simd_support", feature(portable_simd))]
#![cfg_attr(
    all(feature = "simd_support", target_feature = "avx512bw"),
    feature(stdarch_x86_avx512)
)]
#![cfg_attr(docsrs, feature(doc_cfg))]
#![allow(
    clippy::float_cmp,
    clippy::neg_cmp_op_on_partial_ord,
    clippy::nonminimal_bool
)]
#![deny(clippy::undocumented_unsafe_blocks)]

#[cfg(feature = "alloc")]
extern crate alloc;
#[cfg(feature = "std")]
extern crate std;

// Re-export rand_core itself
pub use rand_core;

// Re-exports from rand_core
pub use rand_core::{CryptoRng, RngCore, SeedableRng, TryCryptoRng, TryRngCore};

// Public modules
pub mod distr;
pub mod prelude;
mod rng;
pub mod rngs;
pub mod seq;

// Public exports
#[cfg(feature = "thread_rng")]
pub use crate::rngs::thread::rng;

/// Access the thread-local generator
///
/// Use [`rand::rng()`](rng()) instead.
#[cfg(feature = "thread_rng")]
#[deprecated(since = "0.9.0", note = "Renamed to `rng`")]
#[inline]
pub fn thread_rng() -> crate::rngs::ThreadRng {
    rng()
}

pub use rng::{Fill, Rng};

#[cfg(feature = "thread_rng")]
use crate::distr::{Distribution, StandardUniform};

/// Generate a random value using the thread-local random number generator.
///
/// This function is shorthand for <code>[rng()].[random()](Rng::random)</code>:
///
/// -   See [`ThreadRng`] for documentation of the generator and security
/// -   See [`StandardUniform`] for documentation of supported types and distributions
///
/// # Examples
///
/// ```
/// let x = rand::random::<u8>();
/// println!("{}", x);
///
/// let y = rand::random::<f64>();
/// println!("{}", y);
///
/// if rand::random() { // generates a boolean
///     println!("Better lucky than good!");
/// }
/// ```
///
/// If you're calling `random()` repeatedly, consider using a local `rng`
/// handle to save an initialization-check on each usage:
///
/// ```
/// use rand::Rng; // provides the `random` method
///
/// let mut rng = rand::rng(); // a local handle to the generator
///
/// let mut v = vec![1, 2, 3];
///
/// for x in v.iter_mut() {
///     *x = rng.random();
/// }
/// ```
///
/// [`StandardUniform`]: distr::StandardUniform
/// [`ThreadRng`]: rngs::ThreadRng
#[cfg(feature = "thread_rng")]
#[inline]
pub fn random<T>() -> T
where
    StandardUniform: Distribution<T>,
{
    rng().random()
}

/// Return an iterator over [`random()`] variates
///
/// This function is shorthand for
/// <code>[rng()].[random_iter](Rng::random_iter)()</code>.
///
/// # Example
///
/// ```
/// let v: Vec<i32> = rand::random_iter().take(5).collect();
/// println!("{v:?}");
/// ```
#[cfg(feature = "thread_rng")]
#[inline]
pub fn random_iter<T>() -> distr::Iter<StandardUniform, rngs::ThreadRng, T>
where
    StandardUniform: Distribution<T>,
{
    rng().random_iter()
}

/// Generate a random value in the given range using the thread-local random number generator.
///
/// This function is shorthand for
/// <code>[rng()].[random_range](Rng::random_range)(<var>range</var>)</code>.
///
/// # Example
///
/// ```
/// let y: f32 = rand::random_range(0.0..=1e9);
/// println!("{}", y);
///
/// let words: Vec<&str> = "Mary had a little lamb".split(' ').collect();
/// println!("{}", words[rand::random_range(..words.len())]);
/// ```
/// Note that the first example can also be achieved (without `collect`'ing
/// to a `Vec`) using [`seq::IteratorRandom::choose`].
#[cfg(feature = "thread_rng")]
#[inline]
pub fn random_range<T, R>(range: R) -> T
where
    T: distr::uniform::SampleUniform,
    R: distr::uniform::SampleRange<T>,
{
    rng().random_range(range)
}

/// Return a bool with a probability `p` of being true.
///
/// This function is shorthand for
/// <code>[rng()].[random_bool](Rng::random_bool)(<var>p</var>)</code>.
///
/// # Example
///
/// ```
/// println!("{}", rand::random_bool(1.0 / 3.0));
/// ```
///
/// # Panics
///
/// If `p < 0` or `p > 1`.
#[cfg(feature = "thread_rng")]
#[inline]
#[track_caller]
pub fn random_bool(p: f64) -> bool {
    rng().random_bool(p)
}

/// Return a bool with a probability of `numerator/denominator` of being
/// true.
///
/// That is, `random_ratio(2, 3)` has chance of 2 in 3, or about 67%, of
/// returning true. If `numerator == denominator`, then the returned value
/// is guaranteed to be `true`. If `numerator == 0`, then the returned
/// value is guaranteed to be `false`.
///
/// See also the [`Bernoulli`] distribution, which may be faster if
/// sampling from the same `numerator` and `denominator` repeatedly.
///
/// This function is shorthand for
/// <code>[rng()].[random_ratio](Rng::random_ratio)(<var>numerator</var>, <var>denominator</var>)</code>.
///
/// # Panics
///
/// If `denominator == 0` or `numerator > denominator`.
///
/// # Example
///
/// ```
/// println!("{}", rand::random_ratio(2, 3));
/// ```
///
/// [`Bernoulli`]: distr::Bernoulli
#[cfg(feature = "thread_rng")]
#[inline]
#[track_caller]
pub fn random_ratio(numerator: u32, denominator: u32) -> bool {
    rng().random_ratio(numerator, denominator)
}

/// Fill any type implementing [`Fill`] with random data
///
/// This function is shorthand for
/// <code>[rng()].[fill](Rng::fill)(<var>dest</var>)</code>.
///
/// # Example
///
/// ```
/// let mut arr = [0i8; 20];
/// rand::fill(&mut arr[..]);
/// ```
///
/// Note that you can instead use [`random()`] to generate an array of random
/// data, though this is slower for small elements (smaller than the RNG word
/// size).
#[cfg(feature = "thread_rng")]
#[inline]
#[track_caller]
pub fn fill<T: Fill + ?Sized>(dest: &mut T) {
    dest.fill(&mut rng())
}

#[cfg(test)]
mod test {
    use super::*;

    /// Construct a deterministic RNG with the given seed
    pub fn rng(seed: u64) -> impl RngCore {
        // For tests, we want a statistically good, fast, reproducible RNG.
        // PCG32 will do fine, and will be easy to embed if we ever need to.
        const INC: u64 = 11634580027462260723;
        rand_pcg::Pcg32::new(seed, INC)
    }

    /// Construct a generator yielding a constant value
    pub fn const_rng(x: u64) -> StepRng {
        StepRng(x, 0)
    }

    /// Construct a generator yielding an arithmetic sequence
    pub fn step_rng(x: u64, increment: u64) -> StepRng {
        StepRng(x, increment)
    }

    #[derive(Clone)]
    pub struct StepRng(u64, u64);
    impl RngCore for StepRng {
        fn next_u32(&mut self) -> u32 {
            self.next_u64() as u32
        }

        fn next_u64(&mut self) -> u64 {
            let res = self.0;
            self.0 = self.0.wrapping_add(self.1);
            res
        }

        fn fill_bytes(&mut self, dst: &mut [u8]) {
            rand_core::impls::fill_bytes_via_next(self, dst)
        }
    }

    #[test]
    #[cfg(feature = "thread_rng")]
    fn test_random() {
        let _n: u64 = random();
        let _f: f32 = random();
        #[allow(clippy::type_complexity)]
        let _many: (
            (),
            [(u32, bool); 3],
            (u8, i8, u16, i16, u32, i32, u64, i64),
            (f32, (f64, (f64,))),
        ) = random();
    }

    #[test]
    #[cfg(feature = "thread_rng")]
    fn test_range() {
        let _n: usize = random_range(42..=43);
        let _f: f32 = random_range(42.0..43.0);
    }
}
