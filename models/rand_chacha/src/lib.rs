//! Model of `rand_chacha` for solver-based checking.
//!
//! `ChaCha12Rng` is a memoised oracle exactly like the Xoshiro model: the c-th
//! output of the generator seeded with key k is an arbitrary value that is a
//! function of (k, c).  In probminhash the key is the seed expression of the
//! densification loops (a function of bin position / pass number only), so
//! "the densification stream depends on the position only" is visible to the
//! solver as "same key => same stream".
//!
//! `ChaCha12Core` exists only because `rand`'s `StdRng`/`ThreadRng` name it; it
//! is a counter and is never used by code under check (harnesses build
//! `ProbOrdMinHash2` without touching `ThreadRng`).
#![allow(static_mut_refs)]

pub use rand_core;
use rand_core::block::{BlockRngCore, CryptoBlockRng};
use rand_core::{CryptoRng, RngCore, SeedableRng};

pub mod oracle {
    pub const NS: usize = 12;
    pub const ND: usize = 16;

    pub static mut NUSED: usize = 0;
    pub static mut KEYS: [[u64; 4]; NS] = [[0; 4]; NS];
    pub static mut KIND: [u8; NS] = [0; NS];
    pub static mut FILLED: [usize; NS] = [0; NS];
    pub static mut DRAWS: [[u64; ND]; NS] = [[0; ND]; NS];
    pub static mut LEMIRE_MAX: u32 = 8;
    pub static mut NDRAWN: usize = 0;

    #[cfg(kani)]
    fn fresh() -> u64 {
        let v: u64 = kani::any();
        // rand's ChaCha-backed BlockRng serves u32 words; Uniform<usize> in 32-bit
        // mode takes the *low* word of next_u64 first?  No: it calls next_u32().
        // Our next_u32 returns the upper half of one cell, see below.
        let hi = (v >> 32) as u32;
        // unrolled (no loop: harness unwind bounds must not depend on the model)
        macro_rules! lemire {
            ($r:expr) => {
                if unsafe { LEMIRE_MAX } >= $r {
                    let r: u32 = $r;
                    kani::assume(hi.wrapping_mul(r) >= r.wrapping_neg() % r);
                }
            };
        }
        lemire!(2);
        lemire!(3);
        lemire!(4);
        lemire!(5);
        lemire!(6);
        lemire!(7);
        lemire!(8);
        v
    }

    #[cfg(not(kani))]
    fn fresh() -> u64 {
        unsafe {
            let mut z = (NDRAWN as u64).wrapping_add(0x9e3779b97f4a7c15);
            z = (z ^ (z >> 30)).wrapping_mul(0xbf58476d1ce4e5b9);
            z = (z ^ (z >> 27)).wrapping_mul(0x94d049bb133111eb);
            z ^ (z >> 31)
        }
    }

    pub fn stream(kind: u8, key: [u64; 4]) -> usize {
        unsafe {
            macro_rules! probe {
                ($i:expr) => {
                    if $i < NUSED
                        && KIND[$i] == kind
                        && KEYS[$i][0] == key[0]
                        && KEYS[$i][1] == key[1]
                        && KEYS[$i][2] == key[2]
                        && KEYS[$i][3] == key[3]
                    {
                        return $i;
                    }
                };
            }
            probe!(0);
            probe!(1);
            probe!(2);
            probe!(3);
            probe!(4);
            probe!(5);
            probe!(6);
            probe!(7);
            probe!(8);
            probe!(9);
            probe!(10);
            probe!(11);
            assert!(NUSED < NS, "chacha oracle model: too many streams for this harness");
            let id = NUSED;
            KIND[id] = kind;
            KEYS[id] = key;
            FILLED[id] = 0;
            NUSED += 1;
            id
        }
    }

    pub fn draw(id: usize, ctr: usize) -> u64 {
        unsafe {
            assert!(id < NUSED, "chacha oracle model: bad stream id");
            assert!(ctr < ND, "chacha oracle model: too many draws for this harness");
            // cells are created strictly in order (no holes, no loop)
            assert!(ctr <= FILLED[id], "oracle model: draws must be consumed in order");
            if FILLED[id] == ctr {
                DRAWS[id][ctr] = fresh();
                FILLED[id] = ctr + 1;
                NDRAWN += 1;
            }
            DRAWS[id][ctr]
        }
    }

    pub fn nb_streams() -> usize {
        unsafe { NUSED }
    }
    pub fn key_of(id: usize) -> [u64; 4] {
        unsafe { KEYS[id] }
    }
    pub fn kind_of(id: usize) -> u8 {
        unsafe { KIND[id] }
    }
    pub fn filled(id: usize) -> usize {
        unsafe { FILLED[id] }
    }
    pub fn set_lemire_max(r: u32) {
        unsafe { LEMIRE_MAX = r }
    }
}

macro_rules! chacha_model {
    ($rng:ident, $core:ident, $kind:expr) => {
        #[derive(Debug, Clone, PartialEq, Eq)]
        pub struct $rng {
            pub id: usize,
            pub ctr: usize,
        }

        impl SeedableRng for $rng {
            type Seed = [u8; 32];
            fn from_seed(seed: [u8; 32]) -> Self {
                let w = |o: usize| u64::from_le_bytes([seed[o], seed[o + 1], seed[o + 2], seed[o + 3], seed[o + 4], seed[o + 5], seed[o + 6], seed[o + 7]]);
        let key = [w(0), w(8), w(16), w(24)];
                $rng {
                    id: oracle::stream($kind, key),
                    ctr: 0,
                }
            }
            fn seed_from_u64(seed: u64) -> Self {
                $rng {
                    id: oracle::stream($kind + 100, [seed, 0, 0, 0]),
                    ctr: 0,
                }
            }
        }

        impl RngCore for $rng {
            #[inline]
            fn next_u32(&mut self) -> u32 {
                (self.next_u64() >> 32) as u32
            }
            #[inline]
            fn next_u64(&mut self) -> u64 {
                let v = oracle::draw(self.id, self.ctr);
                self.ctr += 1;
                v
            }
            fn fill_bytes(&mut self, dest: &mut [u8]) {
                rand_core::impls::fill_bytes_via_next(self, dest);
            }
        }

        impl CryptoRng for $rng {}

        #[derive(Debug, Clone, PartialEq, Eq)]
        pub struct $core {
            ctr: u32,
        }

        impl SeedableRng for $core {
            type Seed = [u8; 32];
            fn from_seed(seed: [u8; 32]) -> Self {
                $core { ctr: seed[0] as u32 }
            }
        }

        impl BlockRngCore for $core {
            type Item = u32;
            type Results = [u32; 16];
            fn generate(&mut self, results: &mut Self::Results) {
                let mut i = 0;
                while i < 16 {
                    self.ctr = self.ctr.wrapping_mul(1664525).wrapping_add(1013904223);
                    results[i] = self.ctr;
                    i += 1;
                }
            }
        }

        impl CryptoBlockRng for $core {}
    };
}

chacha_model!(ChaCha8Rng, ChaCha8Core, 8);
chacha_model!(ChaCha12Rng, ChaCha12Core, 12);
chacha_model!(ChaCha20Rng, ChaCha20Core, 20);
pub type ChaChaRng = ChaCha20Rng;
pub type ChaChaCore = ChaCha20Core;
