//! Model of `rand_chacha` for solver-based checking.
//!
//! `ChaCha12Rng` is a memoised oracle exactly like the Xoshiro model: the c-th
//! output of the generator seeded with key k is an arbitrary value that is a
//! function of (k, c).  In probminhash the key is the seed expression of the
//! densification loops (a function of bin position / pass number only), so
//! "the densification stream depends on the position only" is visible to the
//! solver as "same key => same stream".
//!
//! `ChaCha12Core` exists only because `rand`'s `StdRng`/`ThreadRng` name it; it
//! is a counter and is never used by code under check (harnesses build
//! `ProbOrdMinHash2` without touching `ThreadRng`).
#![allow(static_mut_refs)]

pub use rand_core;
use rand_core::block::{BlockRngCore, CryptoBlockRng};
use rand_core::{CryptoRng, RngCore, SeedableRng};

pub mod oracle {
    //! direct-mapped table: the slot of a stream is `seed % NS` (seeds in probminhash are small
    //! structured integers, concrete in every unwinding of the densification loops, so slots - and
    //! with them all table subscripts - stay concrete for the symbolic executor).  Two different seeds
    //! falling into one slot within a harness is reported by an assertion (never silently merged).
    pub const NS: usize = 61;
    pub const ND: usize = 8;

    pub static mut NUSED: usize = 0;
    pub static mut USED: [bool; NS] = [false; NS];
    pub static mut KEYS: [[u64; 4]; NS] = [[0; 4]; NS];
    pub static mut KIND: [u8; NS] = [0; NS];
    pub static mut FILLED: [usize; NS] = [0; NS];
    pub static mut DRAWS: [[u64; ND]; NS] = [[0; ND]; NS];
    pub static mut NDRAWN: usize = 0;
    /// set by native non-termination replays only: draw from a counter instead of `kani::any()`
    pub static mut NATIVE_FALLBACK: bool = false;

    #[cfg(kani)]
    fn fresh() -> u64 {
        if unsafe { NATIVE_FALLBACK } {
            return unsafe { fallback() };
        }
        kani::any()
    }

    unsafe fn fallback() -> u64 {
        let mut z = (NDRAWN as u64).wrapping_add(0x9e3779b97f4a7c15);
        z = (z ^ (z >> 30)).wrapping_mul(0xbf58476d1ce4e5b9);
        z = (z ^ (z >> 27)).wrapping_mul(0x94d049bb133111eb);
        (z ^ (z >> 31)) | 1
    }

    #[cfg(not(kani))]
    fn fresh() -> u64 {
        unsafe {
            let mut z = (NDRAWN as u64).wrapping_add(0x9e3779b97f4a7c15);
            z = (z ^ (z >> 30)).wrapping_mul(0xbf58476d1ce4e5b9);
            z = (z ^ (z >> 27)).wrapping_mul(0x94d049bb133111eb);
            z ^ (z >> 31)
        }
    }

    pub fn stream(kind: u8, key: [u64; 4]) -> usize {
        unsafe {
            let slot = ((key[0] ^ key[1] ^ key[2] ^ key[3]) % (NS as u64)) as usize;
            if USED[slot] {
                assert!(
                    KIND[slot] == kind && KEYS[slot][0] == key[0] && KEYS[slot][1] == key[1] && KEYS[slot][2] == key[2] && KEYS[slot][3] == key[3],
                    "chacha oracle model: two seeds share a table slot in this harness"
                );
            } else {
                USED[slot] = true;
                KIND[slot] = kind;
                KEYS[slot] = key;
                FILLED[slot] = 0;
                NUSED += 1;
            }
            slot
        }
    }

    pub fn draw(id: usize, ctr: usize) -> u64 {
        unsafe {
            if NATIVE_FALLBACK {
                // native non-termination replay: an endless deterministic stream, no table
                NDRAWN += 1;
                return fallback();
            }
            assert!(id < NS && USED[id], "chacha oracle model: bad stream id");
            assert!(ctr < ND, "chacha oracle model: too many draws for this harness");
            assert!(ctr <= FILLED[id], "chacha oracle model: draws must be consumed in order");
            if FILLED[id] == ctr {
                DRAWS[id][ctr] = fresh();
                FILLED[id] = ctr + 1;
                NDRAWN += 1;
            }
            DRAWS[id][ctr]
        }
    }

    pub fn nb_streams() -> usize {
        unsafe { NUSED }
    }
    pub fn is_used(slot: usize) -> bool {
        unsafe { USED[slot] }
    }
    pub fn key_of(id: usize) -> [u64; 4] {
        unsafe { KEYS[id] }
    }
    pub fn kind_of(id: usize) -> u8 {
        unsafe { KIND[id] }
    }
    pub fn filled(id: usize) -> usize {
        unsafe { FILLED[id] }
    }
    /// number of open streams whose (single-word) seed lies in lo..=hi and whose kind matches; loop-free
    pub fn count_seeds_in(lo: u64, hi: u64, kind: u8) -> usize {
        let mut n = 0;
        unsafe {
            macro_rules! probe {
                ($($i:expr),*) => { $( if USED[$i] && KIND[$i] == kind && KEYS[$i][0] >= lo && KEYS[$i][0] <= hi && KEYS[$i][1] == 0 && KEYS[$i][2] == 0 && KEYS[$i][3] == 0 { n += 1; } )* };
            }
            probe!(0,1,2,3,4,5,6,7,8,9,10,11,12,13,14,15,16,17,18,19,20,21,22,23,24,25,26,27,28,29,30,31,32,33,34,35,36,37,38,39,40,41,42,43,44,45,46,47,48,49,50,51,52,53,54,55,56,57,58,59,60);
        }
        n
    }

    /// slot a seed_from_u64 seed maps to
    pub fn slot_of_seed(seed: u64) -> usize {
        (seed % (NS as u64)) as usize
    }
}

macro_rules! chacha_model {
    ($rng:ident, $core:ident, $kind:expr) => {
        #[derive(Debug, Clone, PartialEq, Eq)]
        pub struct $rng {
            pub id: usize,
            pub ctr: usize,
        }

        impl SeedableRng for $rng {
            type Seed = [u8; 32];
            fn from_seed(seed: [u8; 32]) -> Self {
                let w = |o: usize| u64::from_le_bytes([seed[o], seed[o + 1], seed[o + 2], seed[o + 3], seed[o + 4], seed[o + 5], seed[o + 6], seed[o + 7]]);
        let key = [w(0), w(8), w(16), w(24)];
                $rng {
                    id: oracle::stream($kind, key),
                    ctr: 0,
                }
            }
            fn seed_from_u64(seed: u64) -> Self {
                $rng {
                    id: oracle::stream($kind + 100, [seed, 0, 0, 0]),
                    ctr: 0,
                }
            }
        }

        impl RngCore for $rng {
            #[inline]
            fn next_u32(&mut self) -> u32 {
                (self.next_u64() >> 32) as u32
            }
            #[inline]
            fn next_u64(&mut self) -> u64 {
                let v = oracle::draw(self.id, self.ctr);
                self.ctr += 1;
                v
            }
            fn fill_bytes(&mut self, dest: &mut [u8]) {
                rand_core::impls::fill_bytes_via_next(self, dest);
            }
        }

        impl CryptoRng for $rng {}

        #[derive(Debug, Clone, PartialEq, Eq)]
        pub struct $core {
            ctr: u32,
        }

        impl SeedableRng for $core {
            type Seed = [u8; 32];
            fn from_seed(seed: [u8; 32]) -> Self {
                $core { ctr: seed[0] as u32 }
            }
        }

        impl BlockRngCore for $core {
            type Item = u32;
            type Results = [u32; 16];
            fn generate(&mut self, results: &mut Self::Results) {
                let mut i = 0;
                while i < 16 {
                    self.ctr = self.ctr.wrapping_mul(1664525).wrapping_add(1013904223);
                    results[i] = self.ctr;
                    i += 1;
                }
            }
        }

        impl CryptoBlockRng for $core {}
    };
}

chacha_model!(ChaCha8Rng, ChaCha8Core, 8);
chacha_model!(ChaCha12Rng, ChaCha12Core, 12);
chacha_model!(ChaCha20Rng, ChaCha20Core, 20);
pub type ChaChaRng = ChaCha20Rng;
pub type ChaChaCore = ChaCha20Core;
