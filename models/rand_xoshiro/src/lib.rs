//! Model of `rand_xoshiro::Xoshiro256PlusPlus` for solver-based checking.
//!
//! A generator is a token (stream id, draw counter).  `next_u64` is a
//! *memoised oracle*: the value of draw number `c` of the stream with seed key
//! `k` is an arbitrary `u64` (`kani::any()` on first use), but it is a
//! function of `(k, c)`: asking again (from a clone, from a second generator
//! seeded with an equal key, from a reference computation in the harness)
//! returns the same value.  Everything proved for every oracle holds for the
//! real Xoshiro stream, which is one particular oracle.
//!
//! Value constraint (stated in DESIGN.md 0.2): draws whose upper 32 bits would
//! be *rejected* by rand's Lemire sampler for some range 2..=LEMIRE_MAX are
//! excluded, and so is the value 0 (rejected by `Uniform<u64>(0, usize::MAX)`),
//! so that the rejection loops of `rand::distr::Uniform<int>` terminate after one
//! draw.  A rejected draw is simply followed by a fresh one in the real code.
#![allow(static_mut_refs)]

pub use rand_core;
use rand_core::{RngCore, SeedableRng};

pub mod oracle {
    /// maximal number of distinct streams in one harness
    pub const NS: usize = 4;
    /// maximal number of draws per stream
    pub const ND: usize = 24;

    pub static mut NUSED: usize = 0;
    pub static mut KEYS: [[u64; 4]; NS] = [[0; 4]; NS];
    pub static mut KIND: [u8; NS] = [0; NS];
    pub static mut FILLED: [usize; NS] = [0; NS];
    pub static mut DRAWS: [[u64; ND]; NS] = [[0; ND]; NS];
    /// largest range for which Lemire rejections are excluded (0 = no constraint)
    pub static mut LEMIRE_MAX: u32 = 0;
    /// total number of oracle cells created (for evidence / cover)
    pub static mut NDRAWN: usize = 0;
    /// set by native non-termination replays only: draw from a counter instead of `kani::any()`
    pub static mut NATIVE_FALLBACK: bool = false;

    #[cfg(kani)]
    fn fresh() -> u64 {
        if unsafe { NATIVE_FALLBACK } {
            return unsafe { fallback() };
        }
        let v: u64 = kani::any();
        let hi = (v >> 32) as u32;
        // unrolled (no loop: harness unwind bounds must not depend on the model)
        macro_rules! lemire {
            ($r:expr) => {
                if unsafe { LEMIRE_MAX } >= $r {
                    let r: u32 = $r;
                    kani::assume(hi.wrapping_mul(r) >= r.wrapping_neg() % r);
                }
            };
        }
        lemire!(2);
        lemire!(3);
        lemire!(4);
        lemire!(5);
        lemire!(6);
        lemire!(7);
        lemire!(8);
        v
    }

    unsafe fn fallback() -> u64 {
        let mut z = (NDRAWN as u64).wrapping_add(0x9e3779b97f4a7c15);
        z = (z ^ (z >> 30)).wrapping_mul(0xbf58476d1ce4e5b9);
        z = (z ^ (z >> 27)).wrapping_mul(0x94d049bb133111eb);
        (z ^ (z >> 31)) | 1
    }

    #[cfg(not(kani))]
    fn fresh() -> u64 {
        // plain builds never use the model for anything meaningful; SplitMix64 on a counter
        unsafe {
            let mut z = (NDRAWN as u64).wrapping_add(0x9e3779b97f4a7c15);
            z = (z ^ (z >> 30)).wrapping_mul(0xbf58476d1ce4e5b9);
            z = (z ^ (z >> 27)).wrapping_mul(0x94d049bb133111eb);
            (z ^ (z >> 31)) | 1
        }
    }

    /// stream id for a seed key; equal keys give the same stream
    pub fn stream(kind: u8, key: [u64; 4]) -> usize {
        unsafe {
            macro_rules! probe {
                ($i:expr) => {
                    if $i < NUSED
                        && KIND[$i] == kind
                        && KEYS[$i][0] == key[0]
                        && KEYS[$i][1] == key[1]
                        && KEYS[$i][2] == key[2]
                        && KEYS[$i][3] == key[3]
                    {
                        return $i;
                    }
                };
            }
            probe!(0);
            probe!(1);
            probe!(2);
            probe!(3);
            assert!(NUSED < NS, "oracle model: too many streams for this harness");
            let id = NUSED;
            KIND[id] = kind;
            KEYS[id] = key;
            FILLED[id] = 0;
            NUSED += 1;
            id
        }
    }

    /// value of draw `ctr` of stream `id`
    pub fn draw(id: usize, ctr: usize) -> u64 {
        unsafe {
            if NATIVE_FALLBACK {
                // native non-termination replay: an endless deterministic stream, no table
                NDRAWN += 1;
                return fallback();
            }
            assert!(id < NUSED, "oracle model: bad stream id");
            assert!(ctr < ND, "oracle model: too many draws for this harness");
            // cells are created strictly in order (no holes, no loop)
            assert!(ctr <= FILLED[id], "oracle model: draws must be consumed in order");
            if FILLED[id] == ctr {
                DRAWS[id][ctr] = fresh();
                FILLED[id] = ctr + 1;
                NDRAWN += 1;
            }
            DRAWS[id][ctr]
        }
    }

    /// harness-side: fix the value of the next not-yet-created cell of a stream to a concrete value
    /// (used to make a slot choice concrete: one representative draw per slot, the other draws stay symbolic)
    pub fn preset(id: usize, ctr: usize, v: u64) {
        unsafe {
            assert!(id < NUSED && ctr < ND && FILLED[id] == ctr, "oracle model: preset must extend the stream in order");
            DRAWS[id][ctr] = v;
            FILLED[id] = ctr + 1;
            NDRAWN += 1;
        }
    }

    /// number of cells of stream `id` that have been looked at so far
    pub fn filled(id: usize) -> usize {
        unsafe { FILLED[id] }
    }

    pub fn nb_streams() -> usize {
        unsafe { NUSED }
    }

    pub fn set_lemire_max(r: u32) {
        unsafe { LEMIRE_MAX = r }
    }
}

/// Model generator: (stream id, number of draws consumed)
#[derive(Debug, Clone, PartialEq, Eq)]
pub struct Xoshiro256PlusPlus {
    pub id: usize,
    pub ctr: usize,
}

impl Xoshiro256PlusPlus {
    /// model-only: how many draws this generator has consumed
    pub fn consumed(&self) -> usize {
        self.ctr
    }
}

impl SeedableRng for Xoshiro256PlusPlus {
    type Seed = [u8; 32];

    fn from_seed(seed: [u8; 32]) -> Xoshiro256PlusPlus {
        let w = |o: usize| u64::from_le_bytes([seed[o], seed[o + 1], seed[o + 2], seed[o + 3], seed[o + 4], seed[o + 5], seed[o + 6], seed[o + 7]]);
        let key = [w(0), w(8), w(16), w(24)];
        Xoshiro256PlusPlus {
            id: oracle::stream(1, key),
            ctr: 0,
        }
    }

    fn seed_from_u64(seed: u64) -> Xoshiro256PlusPlus {
        Xoshiro256PlusPlus {
            id: oracle::stream(2, [seed, 0, 0, 0]),
            ctr: 0,
        }
    }
}

impl RngCore for Xoshiro256PlusPlus {
    #[inline]
    fn next_u32(&mut self) -> u32 {
        (self.next_u64() >> 32) as u32
    }

    #[inline]
    fn next_u64(&mut self) -> u64 {
        let v = oracle::draw(self.id, self.ctr);
        self.ctr += 1;
        v
    }

    fn fill_bytes(&mut self, dest: &mut [u8]) {
        rand_core::impls::fill_bytes_via_next(self, dest);
    }
}
