//! Model of `rand_distr` for solver-based checking: `Exp1` consumes exactly one
//! generator draw and returns it reinterpreted as an arbitrary finite f64 >= 0
//! (the real ziggurat is table lookups by symbolic index plus `ln`: out of reach).
//! The value is a function of the draw, so equal generator states give equal samples.
pub use rand::distr::{
    uniform, Alphanumeric, Bernoulli, BernoulliError, Distribution, Open01, OpenClosed01,
    StandardUniform, Uniform,
};

use rand::Rng;

#[derive(Clone, Copy, Debug)]
pub struct Exp1;

#[inline]
pub fn exp1_of_bits(bits: u64) -> f64 {
    let x = f64::from_bits(bits);
    #[cfg(kani)]
    {
        kani::assume(x.is_finite() && x >= 0.0);
        return x;
    }
    #[cfg(not(kani))]
    {
        if x.is_finite() && x >= 0.0 {
            x
        } else {
            1.0
        }
    }
}

impl Distribution<f64> for Exp1 {
    #[inline]
    fn sample<R: Rng + ?Sized>(&self, rng: &mut R) -> f64 {
        exp1_of_bits(rng.next_u64())
    }
}

impl Distribution<f32> for Exp1 {
    #[inline]
    fn sample<R: Rng + ?Sized>(&self, rng: &mut R) -> f32 {
        let x = f32::from_bits((rng.next_u64() >> 32) as u32);
        #[cfg(kani)]
        kani::assume(x.is_finite() && x >= 0.0);
        x
    }
}
