use probminhash::setsketcher::SetSketchParams;
use std::io::BufRead;
fn main() {
    std::panic::set_hook(Box::new(|_| {}));
    for line in std::io::stdin().lock().lines() {
        let line = line.unwrap();
        let mut it = line.split_whitespace();
        let b = f64::from_bits(it.next().unwrap().parse::<u64>().unwrap());
        let jac = f64::from_bits(it.next().unwrap().parse::<u64>().unwrap());
        let r = std::panic::catch_unwind(|| SetSketchParams::new(b, 4096, 20., 65534).get_jaccard_bounds(jac));
        match r {
            Ok((lo, hi)) => {
                let bad = !(lo.is_finite() && hi.is_finite() && lo >= 0.0 && lo <= hi);
                println!("{} {} {} {:e} {:e}", if bad { "BAD" } else { "ok" }, b.to_bits(), jac.to_bits(), lo, hi);
            }
            Err(_) => println!("PANIC {} {} - -", b.to_bits(), jac.to_bits()),
        }
    }
}
