use fnv::FnvHasher;
use probminhash::setsketcher::{SetSketchParams, SetSketcher};
use std::hash::BuildHasherDefault;

fn ss(m: u64, items: &[u64]) -> (Vec<u16>, i64, u64) {
    let mut s: SetSketcher<u16, u64, FnvHasher> = SetSketcher::new(SetSketchParams::new(1.001, m, 20., 65534), BuildHasherDefault::<FnvHasher>::default());
    for it in items {
        s.sketch(it).unwrap();
    }
    (s.get_signature().clone(), s.get_low_sketch(), s.get_nb_overflow())
}

fn main() {
    let mut seed: u64 = std::env::args().nth(1).map(|x| x.parse().unwrap()).unwrap_or(1) * 0x9e3779b97f4a7c15 + 12345;
    let mut next = || {
        seed ^= seed << 13;
        seed ^= seed >> 7;
        seed ^= seed << 17;
        seed
    };
    let t0 = std::time::Instant::now();
    let mut trials = 0u64;
    for m in [2u64, 3, 4, 8, 64, 512].iter().cycle() {
        if t0.elapsed().as_secs() > 25 {
            break;
        }
        let n = 1 + (next() % 40) as usize;
        let items: Vec<u64> = (0..n).map(|_| next() % 100_000).collect();
        let a = ss(*m, &items);
        let mut rev = items.clone();
        rev.reverse();
        let b = ss(*m, &rev);
        let mut dup = items.clone();
        dup.push(items[0]);
        dup.insert(n / 2, items[n - 1]);
        let c = ss(*m, &dup);
        trials += 1;
        if a.0 != b.0 || a.0 != c.0 {
            println!("MISMATCH setsketch m={} items={:?}\n forward   {:?}\n reversed  {:?}\n with dups {:?}", m, items, a.0, b.0, c.0);
            return;
        }
        let minreg = *a.0.iter().min().unwrap() as i64;
        if a.1 > minreg || b.1 > minreg {
            println!("MISMATCH setsketch m={} items={:?}: reported low sketch {} exceeds the minimum register {}", m, items, a.1, minreg);
            return;
        }
    }
    println!("NONE after {} trials", trials);
}
