use fnv::FnvHasher;
use probminhash::setsketcher::{SetSketchParams, SetSketcher};
use std::hash::BuildHasherDefault;

/// configurations: 0 = u16 registers, b = 1.001 (documented default); 1 = u16, b = 1.0001 (registers reach u16::MAX = q + 1);
/// 2 = u8 registers, b = 1.01, q = 254 (saturating registers); 3 = u16, b = 2, a = 1 (small integer levels, many ties)
fn ss(cfg: usize, m: u64, items: &[u64]) -> (Vec<u64>, i64, u64) {
    macro_rules! run {
        ($ty:ty, $b:expr, $a:expr, $q:expr) => {{
            let mut s: SetSketcher<$ty, u64, FnvHasher> = SetSketcher::new(SetSketchParams::new($b, m, $a, $q), BuildHasherDefault::<FnvHasher>::default());
            for it in items {
                s.sketch(it).unwrap();
            }
            (s.get_signature().iter().map(|x| *x as u64).collect::<Vec<u64>>(), s.get_low_sketch(), s.get_nb_overflow())
        }};
    }
    match cfg {
        0 => run!(u16, 1.001, 20., 65534),
        1 => run!(u16, 1.0001, 20., 65534),
        2 => run!(u8, 1.01, 20., 254),
        _ => run!(u16, 2.0, 1., 30),
    }
}

fn main() {
    let mut seed: u64 = std::env::args().nth(1).map(|x| x.parse().unwrap()).unwrap_or(1) * 0x9e3779b97f4a7c15 + 12345;
    let mut next = || {
        seed ^= seed << 13;
        seed ^= seed >> 7;
        seed ^= seed << 17;
        seed
    };
    let t0 = std::time::Instant::now();
    let mut trials = 0u64;
    let mut cfg = 0usize;
    for m in [2u64, 3, 4, 8, 64, 512, 1, 5, 7].iter().cycle() {
        cfg = (cfg + 1) % 4;
        if t0.elapsed().as_secs() > 25 {
            break;
        }
        let n = 1 + (next() % 40) as usize;
        let items: Vec<u64> = (0..n).map(|_| next() % 100_000).collect();
        let a = ss(cfg, *m, &items);
        let mut rev = items.clone();
        rev.reverse();
        let b = ss(cfg, *m, &rev);
        let mut dup = items.clone();
        dup.push(items[0]);
        dup.insert(n / 2, items[n - 1]);
        let c = ss(cfg, *m, &dup);
        trials += 1;
        if a.0 != b.0 || a.0 != c.0 {
            println!("MISMATCH setsketch cfg={} m={} items={:?}\n forward   {:?}\n reversed  {:?}\n with dups {:?}", cfg, m, items, a.0, b.0, c.0);
            return;
        }
        let minreg = *a.0.iter().min().unwrap() as i64;
        let _ = cfg;
        if a.1 > minreg || b.1 > minreg {
            println!("MISMATCH setsketch m={} items={:?}: reported low sketch {} exceeds the minimum register {}", m, items, a.1, minreg);
            return;
        }
    }
    println!("NONE after {} trials", trials);
}
