use fnv::{FnvBuildHasher, FnvHasher};
use indexmap::IndexMap;
use probminhash::densminhash::{OptDensMinHash, RevOptDensMinHash};
use probminhash::probminhasher::probordminhash2::ProbOrdMinHash2;
use probminhash::probminhasher::{ProbMinHash2, ProbMinHash3, ProbMinHash3a, ProbMinHash3aSha};
use probminhash::setsketcher::{SetSketchParams, SetSketcher};
use probminhash::superminhasher::SuperMinHash;
use probminhash::superminhasher2::SuperMinHash2;
use std::hash::BuildHasherDefault;

fn items() -> Vec<u64> {
    (0..200u64).map(|x| x * 7919 + 13).collect()
}

fn one(kind: &str) -> String {
    let bh = BuildHasherDefault::<FnvHasher>::default();
    match kind {
        "smh_f64" => {
            let mut s: SuperMinHash<f64, u64, FnvHasher> = SuperMinHash::new(16, bh);
            s.sketch_slice(&items()).unwrap();
            format!("{:?}", s.get_hsketch().iter().map(|x| x.to_bits()).collect::<Vec<_>>())
        }
        "smh_f32" => {
            let mut s: SuperMinHash<f32, u64, FnvHasher> = SuperMinHash::new(16, bh);
            s.sketch_slice(&items()).unwrap();
            format!("{:?}", s.get_hsketch().iter().map(|x| x.to_bits()).collect::<Vec<_>>())
        }
        "smh2" => {
            let mut s: SuperMinHash2<u64, u64, FnvHasher> = SuperMinHash2::new(16, bh);
            s.sketch_slice(&items()).unwrap();
            format!("{:?}", s.get_hsketch())
        }
        "smh2_u32" => {
            // u32 sketch with a 64-bit hasher: at the pinned commit this panics (hash does not fit) - identically for
            // every instance; the outcome (panic or sketch) must still be the same everywhere
            let r = std::panic::catch_unwind(|| {
                let bh = BuildHasherDefault::<FnvHasher>::default();
                let mut s: SuperMinHash2<u32, u64, FnvHasher> = SuperMinHash2::new(16, bh);
                s.sketch_slice(&items()).unwrap();
                format!("{:?}", s.get_hsketch())
            });
            r.unwrap_or_else(|_| "PANIC".to_string())
        }
        "setsketch" => {
            let mut s: SetSketcher<u16, u64, FnvHasher> = SetSketcher::new(SetSketchParams::new(1.001, 64, 20., 65534), bh);
            s.sketch_slice(&items()).unwrap();
            format!("{:?}", s.get_signature())
        }
        "optdens" => {
            let mut s: OptDensMinHash<f64, u64, FnvHasher> = OptDensMinHash::new(512, bh);
            s.sketch_slice(&items()).unwrap();
            format!("{:?} {:?}", s.get_hsketch_u64(), s.get_hsketch_u32())
        }
        "revdens" => {
            let mut s: RevOptDensMinHash<f64, u64, FnvHasher> = RevOptDensMinHash::new(512, bh);
            s.sketch_slice(&items()).unwrap();
            format!("{:?} {:?}", s.get_hsketch_u64(), s.get_hsketch_u32())
        }
        "pmh2" => {
            let mut s: ProbMinHash2<u64, FnvHasher> = ProbMinHash2::new(16, 0);
            for (i, it) in items().iter().enumerate() {
                s.hash_item(*it, 1.0 + (i % 5) as f64);
            }
            format!("{:?}", s.get_signature())
        }
        "pmh3" => {
            let mut s: ProbMinHash3<u64, FnvHasher> = ProbMinHash3::new(16, 0);
            for (i, it) in items().iter().enumerate() {
                s.hash_item(*it, &(1.0 + (i % 5) as f64));
            }
            format!("{:?}", s.get_signature())
        }
        "pmh3a" => {
            let mut m: IndexMap<u64, f64, FnvBuildHasher> = IndexMap::with_hasher(FnvBuildHasher::default());
            for (i, it) in items().iter().enumerate() {
                m.insert(*it, 1.0 + (i % 5) as f64);
            }
            let mut s: ProbMinHash3a<u64, FnvHasher> = ProbMinHash3a::new(16, 0);
            s.hash_weigthed_idxmap(&m);
            format!("{:?}", s.get_signature())
        }
        "pmh3asha" => {
            let mut m: IndexMap<u64, f64, FnvBuildHasher> = IndexMap::with_hasher(FnvBuildHasher::default());
            for (i, it) in items().iter().enumerate() {
                m.insert(*it, 1.0 + (i % 5) as f64);
            }
            let mut s: ProbMinHash3aSha<u64> = ProbMinHash3aSha::new(16, 0);
            s.hash_weigthed_idxmap(&m);
            format!("{:?}", s.get_signature())
        }
        "probord" => {
            let mut s: ProbOrdMinHash2<FnvHasher> = ProbOrdMinHash2::new(16, 2);
            format!("{:?}", s.hash_set(&items()))
        }
        _ => panic!("unknown kind"),
    }
}

/// other sketchers with OTHER parameters used earlier in the same process: a sketch must not depend on them
fn history() {
    let bh = BuildHasherDefault::<FnvHasher>::default();
    let mut s: SetSketcher<u16, u64, FnvHasher> = SetSketcher::new(SetSketchParams::new(1.5, 32, 10., 1000), bh);
    s.sketch_slice(&[1u64, 2, 3]).unwrap();
    let mut s: SuperMinHash<f64, u64, FnvHasher> = SuperMinHash::new(7, BuildHasherDefault::<FnvHasher>::default());
    s.sketch_slice(&[5u64, 6]).unwrap();
    let mut s: SuperMinHash2<u64, u64, FnvHasher> = SuperMinHash2::new(5, BuildHasherDefault::<FnvHasher>::default());
    s.sketch_slice(&[5u64, 6]).unwrap();
    let mut s: ProbMinHash3<u64, FnvHasher> = ProbMinHash3::new(5, 0);
    s.hash_item(77, &3.0);
    let mut s: ProbMinHash2<u64, FnvHasher> = ProbMinHash2::new(5, 0);
    s.hash_item(77, 3.0);
    let mut s: OptDensMinHash<f64, u64, FnvHasher> = OptDensMinHash::new(9, BuildHasherDefault::<FnvHasher>::default());
    s.sketch_slice(&[1u64]).unwrap();
    let mut s: ProbOrdMinHash2<FnvHasher> = ProbOrdMinHash2::new(4, 1);
    let _ = s.hash_set(&[9u64, 8, 7]);
}

fn main() {
    std::panic::set_hook(Box::new(|_| {}));
    let kind = std::env::args().nth(1).unwrap();
    if std::env::args().nth(2).is_some() {
        history();
    }
    // two instances in one thread, and two in concurrently running threads
    println!("{}", one(&kind));
    println!("{}", one(&kind));
    let k1 = kind.clone();
    let k2 = kind.clone();
    let t1 = std::thread::spawn(move || one(&k1));
    let t2 = std::thread::spawn(move || one(&k2));
    println!("{}", t1.join().unwrap());
    println!("{}", t2.join().unwrap());
}
