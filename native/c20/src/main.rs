use probminhash::setsketcher::SetSketchParams;
use std::path::Path;
fn main() {
    std::panic::set_hook(Box::new(|_| {}));
    let dir = std::env::args().nth(1).unwrap();
    let dir = Path::new(&dir);
    let p = SetSketchParams::new(1.0010000000000001, 4096, 20.123456789012345, 65534);
    p.dump_json(dir).unwrap();
    let full = std::fs::read(dir.join("parameters.json")).unwrap();
    println!("FILE {}", String::from_utf8_lossy(&full));
    let mut bad = 0;
    for cut in 0..full.len() {
        std::fs::write(dir.join("parameters.json"), &full[..cut]).unwrap();
        let r = std::panic::catch_unwind(|| SetSketchParams::reload_json(dir));
        match r {
            Err(_) => {
                println!("PANIC cut={}", cut);
                bad += 1;
            }
            Ok(Ok(q)) => {
                println!("OK-DIFFERENT cut={} {:?}", cut, q);
                bad += 1;
            }
            Ok(Err(_)) => {}
        }
    }
    // missing file
    std::fs::remove_file(dir.join("parameters.json")).unwrap();
    match std::panic::catch_unwind(|| SetSketchParams::reload_json(dir)) {
        Ok(Err(_)) => {}
        _ => {
            println!("PANIC-OR-OK missing file");
            bad += 1;
        }
    }
    // history: the directory already holds an older, longer dump
    let mut older = full.clone();
    older.extend_from_slice(b"                                ");
    let long = SetSketchParams::new(1.0010000000000001, 4096, 20.123456789012345, 65534);
    let short = SetSketchParams::new(1.5, 8, 2.0, 7);
    for (what, first) in [("older dump padded with blanks", Some(older)), ("older dump of longer parameters", None)] {
        match first {
            Some(bytes) => std::fs::write(dir.join("parameters.json"), &bytes).unwrap(),
            None => long.dump_json(dir).unwrap(),
        }
        let _ = short.dump_json(dir);
        let now = std::fs::read(dir.join("parameters.json")).unwrap_or_default();
        match std::panic::catch_unwind(|| SetSketchParams::reload_json(dir)) {
            Ok(Ok(q)) => {
                let same = format!("{:?}", q) == format!("{:?}", short);
                if !same {
                    println!("STALE-DIFFERENT after {}: {:?} file={:?}", what, q, String::from_utf8_lossy(&now));
                    bad += 1;
                }
            }
            _ => {
                println!("STALE-TAIL after {}: reload fails, file={:?}", what, String::from_utf8_lossy(&now));
                bad += 1;
            }
        }
    }
    println!("BAD {}", bad);
}
