use probminhash::setsketcher::SetSketchParams;
use std::path::Path;
/// (b, m, a, q) read from the Debug text (the fields are private)
fn fields(p: &SetSketchParams) -> (f64, u64, f64, u64) {
    let t = format!("{:?}", p);
    let get = |k: &str| -> String {
        let i = t.find(&format!("{}: ", k)).unwrap() + k.len() + 2;
        t[i..].split(|c| c == ',' || c == ' ' || c == '}').next().unwrap().to_string()
    };
    (get("b").parse().unwrap(), get("m").parse().unwrap(), get("a").parse().unwrap(), get("q").parse().unwrap())
}
fn main() {
    std::panic::set_hook(Box::new(|_| {}));
    let dir = std::env::args().nth(1).unwrap();
    let dir = Path::new(&dir);
    let p = SetSketchParams::new(1.0010000000000001, 4096, 20.123456789012345, 65534);
    p.dump_json(dir).unwrap();
    let full = std::fs::read(dir.join("parameters.json")).unwrap();
    println!("FILE {}", String::from_utf8_lossy(&full));
    let mut bad = 0;
    // value round trip of the intact file, as the property states it: m and q exactly; a and b exactly when they have at
    // most 15 significant decimal digits, otherwise within one unit in the last place
    let long1 = p;
    let long2 = SetSketchParams::new(1.0000123456789012, 123457, 19.999999999123457, 65535);
    let short1 = SetSketchParams::new(1.001, 4096, 20.123456789, 65534);
    let short2 = SetSketchParams::new(1.25, 7, 19.5, 254);
    for (q0, exact) in [(long1, false), (long2, false), (short1, true), (short2, true)] {
        q0.dump_json(dir).unwrap();
        match std::panic::catch_unwind(|| SetSketchParams::reload_json(dir)) {
            Ok(Ok(q)) => {
                let (b0, m0, a0, k0) = fields(&q0);
                let (b1, m1, a1, k1) = fields(&q);
                let tol = if exact { 0 } else { 1 };
                let ulps = |x: f64, y: f64| (x.to_bits() as i128 - y.to_bits() as i128).abs();
                if m0 != m1 || k0 != k1 || ulps(b0, b1) > tol || ulps(a0, a1) > tol {
                    println!("OK-DIFFERENT value round trip: dumped {:?} reloaded {:?}", q0, q);
                    bad += 1;
                }
            }
            _ => {
                println!("PANIC-OR-ERR reload of an intact dump of {:?}", q0);
                bad += 1;
            }
        }
    }
    p.dump_json(dir).unwrap();
    for cut in 0..full.len() {
        std::fs::write(dir.join("parameters.json"), &full[..cut]).unwrap();
        let r = std::panic::catch_unwind(|| SetSketchParams::reload_json(dir));
        match r {
            Err(_) => {
                println!("PANIC cut={}", cut);
                bad += 1;
            }
            Ok(Ok(q)) => {
                println!("OK-DIFFERENT cut={} {:?}", cut, q);
                bad += 1;
            }
            Ok(Err(_)) => {}
        }
    }
    // missing file
    std::fs::remove_file(dir.join("parameters.json")).unwrap();
    match std::panic::catch_unwind(|| SetSketchParams::reload_json(dir)) {
        Ok(Err(_)) => {}
        _ => {
            println!("PANIC-OR-OK missing file");
            bad += 1;
        }
    }
    // history: the directory already holds an older, longer dump
    let mut older = full.clone();
    older.extend_from_slice(b"                                ");
    let long = SetSketchParams::new(1.0010000000000001, 4096, 20.123456789012345, 65534);
    let short = SetSketchParams::new(1.5, 8, 2.0, 7);
    for (what, first) in [("older dump padded with blanks", Some(older)), ("older dump of longer parameters", None)] {
        match first {
            Some(bytes) => std::fs::write(dir.join("parameters.json"), &bytes).unwrap(),
            None => long.dump_json(dir).unwrap(),
        }
        let _ = short.dump_json(dir);
        let now = std::fs::read(dir.join("parameters.json")).unwrap_or_default();
        match std::panic::catch_unwind(|| SetSketchParams::reload_json(dir)) {
            Ok(Ok(q)) => {
                let same = format!("{:?}", q) == format!("{:?}", short);
                if !same {
                    println!("STALE-DIFFERENT after {}: {:?} file={:?}", what, q, String::from_utf8_lossy(&now));
                    bad += 1;
                }
            }
            _ => {
                println!("STALE-TAIL after {}: reload fails, file={:?}", what, String::from_utf8_lossy(&now));
                bad += 1;
            }
        }
    }
    println!("BAD {}", bad);
}
