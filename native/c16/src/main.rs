// Every line of stdin: a u64 generator output proposed by the solver's counterexample (may be empty).
// For a grid of lambda (the three instances of the Kani harnesses first) the real sampler built by the real
// `new(lambda)` is driven with scripts of generator outputs: first draw around the place where c1 * u crosses 1
// (52- and 53-bit uniform grids), at both ends of the u64 range and at the solver's values; second and third draws
// at the ends, the middle and the solver's values.  After the script the generator goes on as splitmix64.
// Prints "BAD lambda_bits d1 d2 d3 sample" for every sample outside [0,1).
use probminhash::exp01::ExpRestricted01;
use rand::distr::Distribution;
use rand::RngCore;
use std::io::BufRead;

struct Scripted {
    script: [u64; 3],
    pos: usize,
    state: u64,
}
impl RngCore for Scripted {
    fn next_u64(&mut self) -> u64 {
        if self.pos < 3 {
            self.pos += 1;
            return self.script[self.pos - 1];
        }
        self.state = self.state.wrapping_add(0x9e37_79b9_7f4a_7c15);
        let mut z = self.state;
        z = (z ^ (z >> 30)).wrapping_mul(0xbf58_476d_1ce4_e5b9);
        z = (z ^ (z >> 27)).wrapping_mul(0x94d0_49bb_1331_11eb);
        z ^ (z >> 31)
    }
    fn next_u32(&mut self) -> u32 {
        (self.next_u64() >> 32) as u32
    }
    fn fill_bytes(&mut self, dest: &mut [u8]) {
        for chunk in dest.chunks_mut(8) {
            let v = self.next_u64().to_le_bytes();
            chunk.copy_from_slice(&v[..chunk.len()]);
        }
    }
}

fn main() {
    let mut given: Vec<u64> = Vec::new();
    for line in std::io::stdin().lock().lines() {
        if let Ok(v) = line.unwrap().trim().parse::<u64>() {
            given.push(v);
        }
    }
    let mut lambdas = vec![0.6931471805599453f64, 0.4054651081081644, 0.22314355131420976];
    for i in 1..=400 {
        lambdas.push(i as f64 * 0.0125); // 0.0125 .. 5
        lambdas.push(10f64.powf(-9.0 + 9.0 * (i as f64) / 400.0)); // 1e-9 .. 1
    }
    let mut others: Vec<u64> = vec![0, u64::MAX, u64::MAX >> 1, 1u64 << 63, 1u64 << 62, u64::MAX - (1 << 12), 1 << 12];
    others.extend(given.iter().cloned());
    let mut nbad = 0usize;
    let mut nchecked = 0usize;
    for &lambda in &lambdas {
        let c1 = lambda.exp_m1() / lambda;
        let e = ExpRestricted01::new(lambda);
        let mut firsts: Vec<u64> = others.clone();
        for (bits, shift) in [(52u32, 12u32), (53, 11), (64, 0)] {
            let k0 = ((2f64.powi(bits as i32)) / c1) as u128;
            for d in -64i128..=64 {
                let k = k0 as i128 + d;
                if k >= 0 && (k as u128) < (1u128 << bits) {
                    firsts.push((k as u64) << shift);
                    firsts.push(((k as u64) << shift) | ((1u64 << shift) - 1));
                }
            }
        }
        for &d1 in &firsts {
            for &d2 in &others {
                for &d3 in &others {
                    let mut rng = Scripted { script: [d1, d2, d3], pos: 0, state: d1 ^ 0x1234_5678_9abc_def0 };
                    let x = e.sample(&mut rng);
                    nchecked += 1;
                    if !(x >= 0.0 && x < 1.0) {
                        nbad += 1;
                        if nbad <= 50 {
                            println!("BAD {} {} {} {} {:?}", lambda.to_bits(), d1, d2, d3, x);
                        }
                    }
                }
            }
        }
    }
    println!("CHECKED {} BADCOUNT {}", nchecked, nbad);
}
